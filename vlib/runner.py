"""
Parent runner:  ./check <Cnn> [--tier quick|thorough] [--replay FILE] [--sub NAME] [--shards N]

exit 0: property held on everything explored (KNOWN-FINDING lines possible)
exit 1: `VIOLATION property=<id> replay=<path>` printed
exit 2: HARNESS-ERROR (never a finding)
"""
import argparse
import glob
import hashlib
import json
import os
import subprocess
import sys
import tempfile
import time

VERIF = os.path.dirname(os.path.dirname(os.path.abspath(__file__)))
PY = os.environ.get("VERIF_PYTHON", "/venv/bin/python")
NPROC = int(os.environ.get("VERIF_JOBS", str(os.cpu_count() or 4)))


def rel(p):
    try:
        return os.path.relpath(p, VERIF)
    except ValueError:
        return p


def worker_cmd(*args):
    return [PY, "-m", "vlib.worker"] + [str(a) for a in args]


def hashseed(*parts):
    h = hashlib.sha256("/".join(str(p) for p in parts).encode()).digest()
    return str(int.from_bytes(h[:4], "big"))


def run_procs(jobs, timeout):
    """jobs: list of (cmd, env, outfile). Runs with NPROC concurrency. Returns list of
    (outfile, returncode, stderr_tail)."""
    pending = list(jobs)
    running = []
    done = []
    while pending or running:
        while pending and len(running) < NPROC:
            cmd, env, outfile = pending.pop(0)
            errf = tempfile.TemporaryFile()
            p = subprocess.Popen(cmd, cwd=VERIF, env=env, stdout=errf, stderr=subprocess.STDOUT)
            running.append((p, outfile, errf, time.time()))
        time.sleep(0.05)
        still = []
        for p, outfile, errf, t0 in running:
            rc = p.poll()
            if rc is None and time.time() - t0 > timeout:
                p.kill()
                p.wait()
                rc = -9
            if rc is None:
                still.append((p, outfile, errf, t0))
            else:
                errf.seek(0)
                tail = errf.read().decode("utf8", "replace")[-2000:]
                errf.close()
                done.append((outfile, rc, tail))
        running = still
    return done


def base_env(seed_parts):
    env = dict(os.environ)
    env["PYTHONHASHSEED"] = hashseed(*seed_parts)
    env["PYTHONPATH"] = VERIF
    env["PYTHONDONTWRITEBYTECODE"] = "1"
    env.pop("PYTHONSTARTUP", None)
    return env


def load_findings(prop):
    path = os.path.join(VERIF, "known_findings.json")
    if not os.path.exists(path):
        return []
    data = json.load(open(path))
    return [f for f in data.get("findings", []) if f["property"] == prop]


def main():
    ap = argparse.ArgumentParser()
    ap.add_argument("prop")
    ap.add_argument("--tier", default=os.environ.get("VERIF_TIER", "quick"))
    ap.add_argument("--replay")
    ap.add_argument("--sub")
    ap.add_argument("--shards", type=int)
    ap.add_argument("--examples", type=int)
    args = ap.parse_args()
    prop = args.prop.upper()
    tier = args.tier if args.tier in ("quick", "thorough") else "quick"
    try:
        seed = int(os.environ.get("VERIF_SEED", "1"))
    except ValueError:
        seed = 1
    t0 = time.time()
    outdir = os.path.join(VERIF, "out")
    os.makedirs(outdir, exist_ok=True)
    os.makedirs(os.path.join(VERIF, "evidence"), exist_ok=True)
    tmpdir = tempfile.mkdtemp(prefix="verif-%s-" % prop, dir=outdir)
    os.environ["VERIF_TMP"] = tmpdir  # scratch files of the workers live and die with this run
    harness_errors = []
    violations = []  # (replay path, violation dict)

    def finish(code):
        import shutil

        shutil.rmtree(tmpdir, ignore_errors=True)
        sys.stdout.flush()
        sys.exit(code)

    # ---- single replay
    if args.replay:
        outfile = os.path.join(tmpdir, "replay.json")
        res = run_procs([(worker_cmd("replay", prop, outfile, os.path.abspath(args.replay)),
                          base_env([seed, prop, "replay"]), outfile)], 1800)
        if not os.path.exists(outfile):
            print("HARNESS-ERROR replay worker failed:\n" + res[0][2])
            finish(2)
        r = json.load(open(outfile))["replays"][0]
        if r["error"]:
            print("HARNESS-ERROR " + r["error"])
            finish(2)
        if r["violations"]:
            for v in r["violations"]:
                print("violation: sig=%s clause=%s detail=%s" % (
                    v["sig"], v["clause"], json.dumps(v["detail"], default=repr)[:1500]))
            print("VIOLATION property=%s replay=%s" % (prop, args.replay))
            finish(1)
        print("no violation on replay %s" % args.replay)
        finish(0)

    # ---- list sub-checks
    outfile = os.path.join(tmpdir, "list.json")
    res = run_procs([(worker_cmd("list", prop, outfile), base_env([seed, prop, "list"]), outfile)], 300)
    if not os.path.exists(outfile):
        print("HARNESS-ERROR cannot load property module %s:\n%s" % (prop, res[0][2]))
        finish(2)
    meta = json.load(open(outfile))
    subs = meta["subs"]
    if args.sub:
        subs = [s for s in subs if s["name"] == args.sub]

    # ---- known findings and regression replays
    findings = load_findings(prop)
    files = {}
    for f in findings:
        if f.get("replay"):
            files[os.path.join(VERIF, f["replay"])] = f
    for p in sorted(glob.glob(os.path.join(VERIF, "replays", prop, "*.json"))):
        files.setdefault(p, None)
    armed = set()
    replay_results = {}
    if files:
        outfile = os.path.join(tmpdir, "replays.json")
        res = run_procs([(worker_cmd("replay", prop, outfile, *files.keys()),
                          base_env([seed, prop, "replays"]), outfile)], 1800)
        if not os.path.exists(outfile):
            print("HARNESS-ERROR replay worker failed:\n" + res[0][2])
            finish(2)
        for r in json.load(open(outfile))["replays"]:
            replay_results[r["file"]] = r
            if r["error"]:
                harness_errors.append("replay %s: %s" % (rel(r["file"]), r["error"]))
        for p, f in files.items():
            r = replay_results.get(p)
            if not r or r["error"]:
                continue
            if f and f["status"] == "open":
                if any(v["sig"] == f["signature"] for v in r["violations"]):
                    armed.add(f["signature"])
                    print("KNOWN-FINDING: property=%s %s [%s] %s" % (prop, f["id"], f["signature"], f["what"]))
        for p, f in files.items():
            r = replay_results.get(p)
            if not r or r["error"]:
                continue
            for v in r["violations"]:
                if v["sig"] not in armed:
                    violations.append((p, v))
                    break
    # open findings without a replay file cannot be armed (nothing shows they still fail)

    # ---- run shards
    jobs = []
    for s in subs:
        n = args.shards or s["shards"][tier]
        n = max(1, min(n, 64))
        for shard in range(n):
            outfile = os.path.join(tmpdir, "%s-%d.json" % (s["name"], shard))
            cmd = worker_cmd("run", prop, s["name"], shard, n, tier, seed, outfile, ",".join(sorted(armed)))
            env = base_env([seed, prop, s["name"], shard])
            if args.examples:
                env["VERIF_EXAMPLES"] = str(args.examples)
            if s["mode"] == "cgfuzz":
                env["VERIF_CGFUZZ"] = "1"
            jobs.append((cmd, env, outfile))
    timeout = 900 if tier == "quick" else 4 * 3600
    results = run_procs(jobs, timeout)
    per_sub = {}
    for outfile, rc, tail in results:
        if not os.path.exists(outfile):
            harness_errors.append("worker %s died rc=%s: %s" % (os.path.basename(outfile), rc, tail[-800:]))
            continue
        r = json.load(open(outfile))
        a = per_sub.setdefault(r["sub"], {"evaluations": 0, "nontrivial": set(), "labels": {},
                                          "samples": [], "known": {}, "wall_s": 0.0})
        a["evaluations"] += r["evaluations"]
        a["nontrivial"].update(r["nontrivial"])
        for k, v in r["labels"].items():
            a["labels"][k] = a["labels"].get(k, 0) + v
        for k, v in r["known"].items():
            a["known"][k] = a["known"].get(k, 0) + v
        if len(a["samples"]) < 3:
            a["samples"].extend(r["samples"][: 3 - len(a["samples"])])
        a["wall_s"] = max(a["wall_s"], r["wall_s"])
        for he in r["harness_errors"]:
            harness_errors.append("%s/%s shard %s: %s" % (prop, r["sub"], r["shard"], he))
        for viol in r["violations"]:
            h = hashlib.sha256(json.dumps(viol["case"], sort_keys=True, default=repr).encode()).hexdigest()[:12]
            path = os.path.join(outdir, "%s-%s-%s.json" % (prop, r["sub"], h))
            with open(path, "w") as fp:
                json.dump({"property": prop, "subcheck": r["sub"], "case": viol["case"],
                           "expect": viol["v"]}, fp, indent=1, default=repr)
            violations.append((path, viol["v"]))

    # ---- evidence
    evaluations = sum(a["evaluations"] for a in per_sub.values())
    distinct = sum(len(a["nontrivial"]) for a in per_sub.values())
    samples = []
    for name, a in per_sub.items():
        for smp in a["samples"][:2]:
            samples.append({"subcheck": name, "case": smp})
    known = {}
    for a in per_sub.values():
        for k, v in a["known"].items():
            known[k] = known.get(k, 0) + v
    sub_meta = {s["name"]: s for s in meta["subs"]}
    all_exh = bool(per_sub) and all(sub_meta[n]["exhaustive"] for n in per_sub)
    coverage = {
        "evaluations": evaluations,
        "distinct_nontrivial": distinct,
        "rule": meta.get("rule", ""),
        "samples": samples[:8],
        "exhaustive": all_exh,
        "subchecks": {
            n: {"evaluations": a["evaluations"], "distinct_nontrivial": len(a["nontrivial"]),
                "mode": sub_meta[n]["mode"], "exhaustive": sub_meta[n]["exhaustive"],
                "rule": sub_meta[n]["rule"], "labels": a["labels"],
                "excluded_known": a["known"], "max_shard_wall_s": round(a["wall_s"], 2)}
            for n, a in per_sub.items()
        },
        "excluded_known": known,
        "known_findings_armed": sorted(armed),
        "regression_replays_run": len(files),
        "harness_errors": harness_errors[:10],
    }
    ev = {
        "property_id": prop,
        "tier": tier,
        "seed": seed,
        "level": meta.get("level", "exploration"),
        "coverage": coverage,
        "assumptions": meta.get("assumptions", []),
        "wall_s": round(time.time() - t0, 2),
        "violations": len(violations),
    }
    with open(os.path.join(VERIF, "evidence", "%s.json" % prop), "w") as fp:
        json.dump(ev, fp, indent=1, default=repr)

    print("%s tier=%s seed=%d evaluations=%d distinct_nontrivial=%d known_excluded=%s wall=%.1fs" % (
        prop, tier, seed, evaluations, distinct, known, time.time() - t0))
    for n, a in per_sub.items():
        print("  %-28s evals=%-7d nontrivial=%-6d labels=%s" % (
            n, a["evaluations"], len(a["nontrivial"]),
            json.dumps(dict(sorted(a["labels"].items())))[:400]))
    if violations:
        seen = set()
        for path, v in violations:
            if path in seen:
                continue
            seen.add(path)
            print("violation: sig=%s clause=%s detail=%s" % (
                v["sig"], v["clause"], json.dumps(v["detail"], default=repr)[:1200]))
            print("VIOLATION property=%s replay=%s" % (prop, rel(path)))
        finish(1)
    if harness_errors:
        for he in harness_errors[:5]:
            print("HARNESS-ERROR " + he)
        finish(2)
    finish(0)


if __name__ == "__main__":
    main()
