"""
Shared definitions for property modules: Sub (a sub-check), V (a violation),
Result, and the per-worker Recorder.
"""
import hashlib
import json


def jhash(obj):
    return hashlib.sha256(
        json.dumps(obj, sort_keys=True, default=repr, ensure_ascii=True).encode()
    ).hexdigest()[:16]


def V(sig, clause, **detail):
    """A violation: `sig` is the narrow root-cause signature used for known-findings
    matching, `clause` names the oracle clause that failed."""
    return {"sig": sig, "clause": clause, "detail": detail}


class Result:
    __slots__ = ("violations", "nontrivial", "labels", "sample", "evals", "nt_hashes")

    def __init__(self, violations=None, nontrivial=False, labels=(), sample=None,
                 evals=1, nt_hashes=None):
        self.violations = list(violations or [])
        self.nontrivial = bool(nontrivial)
        self.labels = list(labels)
        self.sample = sample
        self.evals = evals            # evaluations this case stands for (batched enumerations)
        self.nt_hashes = nt_hashes    # hashes of the non-trivial evaluations inside a batch


class Sub:
    """One sub-check. Subclass or instantiate with callables.

    mode 'hypothesis': strategy() -> Hypothesis strategy of JSON-able cases.
    mode 'enumerate' : enumerate(tier) -> iterator of JSON-able cases (finite, complete).
    run_case(case) -> Result.
    """

    name = "sub"
    mode = "hypothesis"
    examples = {"quick": 200, "thorough": 5000}
    shards = {"quick": 8, "thorough": 16}
    rule = ""
    exhaustive = False

    def strategy(self, tier):
        raise NotImplementedError

    def enumerate(self, tier):
        raise NotImplementedError

    def run_case(self, case):
        raise NotImplementedError


class Recorder:
    def __init__(self):
        self.evaluations = 0
        self.nontrivial = set()
        self.labels = {}
        self.samples = []
        self.known = {}
        self.max_samples = 3

    def case(self, case, res):
        self.evaluations += res.evals
        if res.nt_hashes is not None:
            new = set(res.nt_hashes) - self.nontrivial
            self.nontrivial |= new
            if new and len(self.samples) < self.max_samples and res.sample is not None:
                self.samples.append(res.sample)
        elif res.nontrivial:
            h = jhash(case)
            if h not in self.nontrivial:
                self.nontrivial.add(h)
                if len(self.samples) < self.max_samples:
                    self.samples.append(res.sample if res.sample is not None else case)
        for lab in res.labels:
            self.labels[lab] = self.labels.get(lab, 0) + 1

    def excluded(self, sig):
        self.known[sig] = self.known.get(sig, 0) + 1

    def summary(self):
        return {
            "evaluations": self.evaluations,
            "nontrivial": sorted(self.nontrivial),
            "labels": self.labels,
            "samples": self.samples,
            "known": self.known,
        }
