"""
Generators shared by the query properties (C01, C02, C11, C12): stores built for
adjacency in every LMDB index, and well-formed filters built from the store.
All values are JSON-able.
"""
from hypothesis import strategies as st

from . import events as E

PUBS = ["00" * 32, "00" * 31 + "01", "ab" * 31 + "00", "ab" * 31 + "01", "ff" * 32]
QKINDS = [0, 1, 2, 256, 257, 65535, 5, 30000]  # adjacent (k, k+1, k*256)
QVALS = ["a", "ab", "abc", "ab\x00", "", "b", "a b", ":x", "a :b", "'", "é", "%"]
QNAMES = ["t", "t", "p", "e", "q", "'"]
TS = [E.T0 - 2, E.T0 - 1, E.T0, E.T0 + 1, E.T0 + 2]
TS_EDGE = [1, 2, 2**24 - 1, 2**24, 2**24 + 1, 2**31 - 1]


@st.composite
def st_qevent(draw, idhex, regular_only=True, delegation=False):
    kinds = [0, 1, 2, 256, 257, 65535, 4, 7] if regular_only else QKINDS
    tags = []
    for _ in range(draw(E.weighted((2, st.just(0)), (4, st.just(1)), (3, st.just(2)), (1, st.just(3))))):
        name = draw(st.sampled_from(QNAMES))
        if name in ("e", "p") and draw(st.booleans()):
            val = draw(st.sampled_from(PUBS))
        else:
            val = draw(st.sampled_from(QVALS))
        tags.append([name, val])
    if delegation and draw(st.integers(0, 7)) == 0:
        tags.append(["delegation", draw(st.sampled_from(PUBS)), "kind=1", "00" * 64])
    ts = draw(E.weighted((8, st.sampled_from(TS)), (1, st.sampled_from(TS_EDGE))))
    return E.free(idhex, draw(st.sampled_from(PUBS)), draw(st.sampled_from(kinds)), ts, tags,
                  draw(st.sampled_from(["", "c"])))


@st.composite
def st_store(draw, min_events=1, max_events=20, **kw):
    n = draw(st.integers(min_events, max_events))
    ids = draw(E.st_id_pool(n))
    return [draw(st_qevent(i, **kw)) for i in ids]


def _tagpairs(store):
    out = []
    for ev in store:
        for t in ev["tags"]:
            if len(t) >= 2 and len(t[0]) == 1 and isinstance(t[1], str):
                out.append((t[0], t[1]))
    return out


@st.composite
def st_filter(draw, store, limit=None, allow_absent=True, max_conds=3):
    """A well-formed filter built mostly from values present in `store`."""
    f = {}
    conds = draw(st.lists(st.sampled_from(["ids", "authors", "kinds", "tag", "tag", "since", "until"]),
                          min_size=1, max_size=max_conds, unique=True))
    if all(c in ("since", "until") for c in conds) and draw(st.booleans()):
        conds.append(draw(st.sampled_from(["kinds", "authors", "tag"])))

    def pick(present, absent, maxn=3):
        vals = []
        for _ in range(draw(E.weighted((5, st.just(1)), (3, st.just(2)), (1, st.just(maxn))))):
            if present and (not allow_absent or draw(st.integers(0, 4)) != 0):
                vals.append(draw(st.sampled_from(present)))
            else:
                vals.append(draw(st.sampled_from(absent)))
        out = []
        for v in vals:
            if v not in out:
                out.append(v)
        return out

    for c in conds:
        if c == "ids":
            f["ids"] = pick([e["id"] for e in store], E.ADJ_HEX + ["12" * 32])
        elif c == "authors":
            f["authors"] = pick([e["pubkey"] for e in store], PUBS + ["12" * 32])
        elif c == "kinds":
            f["kinds"] = pick([e["kind"] for e in store], QKINDS + [3, 255, 258])
        elif c == "tag":
            pairs = _tagpairs(store)
            if pairs and draw(st.integers(0, 4)) != 0:
                name = draw(st.sampled_from(pairs))[0]
            else:
                name = draw(st.sampled_from(QNAMES))
            present = [v for (n, v) in pairs if n == name]
            f["#" + name] = pick(present, QVALS)
        elif c in ("since", "until"):
            f[c] = draw(E.weighted(
                (8, st.sampled_from([E.T0 - 3, E.T0 - 2, E.T0 - 1, E.T0, E.T0 + 1, E.T0 + 2, E.T0 + 3])),
                (1, st.sampled_from([0, 1, 2, 2**24 - 1, 2**24, 2**24 + 1, 2**31 - 1, 2145934799]))))
    if limit is not None:
        lim = draw(limit)
        if lim is not None:
            f["limit"] = lim
    return f


@st.composite
def st_store_and_filters(draw, max_filters=3, max_events=20, limit=None, **kw):
    store = draw(st_store(max_events=max_events, **kw))
    nf = draw(E.weighted((6, st.just(1)), (2, st.just(2)), (1, st.integers(3, max(3, max_filters)))))
    filters = [draw(st_filter(store, limit=limit)) for _ in range(nf)]
    return {"store": store, "filters": filters}
