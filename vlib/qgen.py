"""
Generators shared by the query properties (C01, C02, C11, C12): stores built for
adjacency in every LMDB index, and well-formed filters built from the store.
All values are JSON-able.
"""
from hypothesis import strategies as st

from . import events as E

PUBS = ["00" * 32, "00" * 31 + "01", "ab" * 31 + "00", "ab" * 31 + "01", "ff" * 32]
QKINDS = [0, 1, 2, 256, 257, 65535, 5, 30000]  # adjacent (k, k+1, k*256)
LONG = "L" * 260
VLONG = "V" * 480  # longer than an LMDB key can hold (511 - prefix - suffix): the LMDB backend refuses such events
QVALS = ["a", "ab", "abc", "ab\x00", "", "b", "a b", ":x", "a :b", "'", "é", "%", LONG, LONG + "x", VLONG,
         "A", "Ab", "AB", "a ", "É", "_"]  # case / trailing-space / LIKE-wildcard twins of the values above
QNAMES = ["t", "t", "p", "e", "q", "'"]
TS = [E.T0 - 2, E.T0 - 1, E.T0, E.T0 + 1, E.T0 + 2]
TS_EDGE = [1, 2, 2**24 - 1, 2**24, 2**24 + 1, 2**31 - 1]


@st.composite
def st_qevent(draw, idhex, regular_only=True, delegation=False):
    kinds = [0, 1, 2, 256, 257, 65535, 4, 7] if regular_only else QKINDS
    tags = []
    for _ in range(draw(E.weighted((2, st.just(0)), (4, st.just(1)), (3, st.just(2)), (1, st.just(3))))):
        if tags and draw(st.integers(0, 2)) == 0:
            name = tags[-1][0]  # several values under one tag name
        else:
            name = draw(st.sampled_from(QNAMES))
        if name in ("e", "p") and draw(st.booleans()):
            val = draw(st.sampled_from(PUBS))
        else:
            val = draw(st.sampled_from(QVALS))
        tags.append([name, val])
    if delegation and draw(st.integers(0, 7)) == 0:
        tags.append(["delegation", draw(st.sampled_from(PUBS)), "kind=1", "00" * 64])
    ts = draw(E.weighted((8, st.sampled_from(TS)), (1, st.sampled_from(TS_EDGE))))
    return E.free(idhex, draw(st.sampled_from(PUBS)), draw(st.sampled_from(kinds)), ts, tags,
                  draw(st.sampled_from(["", "c"])))


@st.composite
def st_store(draw, min_events=1, max_events=20, **kw):
    n = draw(st.integers(min_events, max_events))
    ids = draw(E.st_id_pool(n))
    return [draw(st_qevent(i, **kw)) for i in ids]


def _tagpairs(store):
    out = []
    for ev in store:
        for t in ev["tags"]:
            if len(t) >= 2 and len(t[0]) == 1 and isinstance(t[1], str):
                out.append((t[0], t[1]))
    return out


@st.composite
def st_filter(draw, store, limit=None, allow_absent=True, max_conds=3):
    """A well-formed filter built mostly from values present in `store`."""
    f = {}
    conds = draw(st.lists(st.sampled_from(["ids", "authors", "kinds", "tag", "tag2", "since", "until"]),
                          min_size=1, max_size=max_conds, unique=True))
    if all(c in ("since", "until") for c in conds) and draw(st.booleans()):
        conds.append(draw(st.sampled_from(["kinds", "authors", "tag"])))
    shape = draw(st.integers(0, 9))
    if shape == 0:
        conds = ["authors", "kinds"] + [c for c in conds if c in ("since", "until")]   # author+kind composite index
    elif shape == 1:
        conds = ["kinds", "tag"] + [c for c in conds if c in ("since", "until")]       # chained multi-index
    elif shape == 2:
        conds = ["authors", "tag", "tag2"][: draw(st.integers(2, 3))]
    elif shape == 3:
        conds = ["tag", "tag2"]   # two tag names and nothing else: one tag-index scan over the union, AND by the matcher

    def pick(present, absent, maxn=3):
        vals = []
        for _ in range(draw(E.weighted((5, st.just(1)), (3, st.just(2)), (1, st.just(maxn))))):
            if present and (not allow_absent or draw(st.integers(0, 4)) != 0):
                vals.append(draw(st.sampled_from(present)))
            else:
                vals.append(draw(st.sampled_from(absent)))
        out = []
        for v in vals:
            if v not in out:
                out.append(v)
        return out

    for c in conds:
        if c == "ids":
            f["ids"] = pick([e["id"] for e in store], E.ADJ_HEX + ["12" * 32])
        elif c == "authors":
            f["authors"] = pick([e["pubkey"] for e in store], PUBS + ["12" * 32])
        elif c == "kinds":
            f["kinds"] = pick([e["kind"] for e in store], QKINDS + [3, 255, 258])
        elif c in ("tag", "tag2"):
            pairs = [(n, v) for (n, v) in _tagpairs(store) if "#" + n not in f]
            if pairs and draw(st.integers(0, 4)) != 0:
                name = draw(st.sampled_from(pairs))[0]
            else:
                name = draw(st.sampled_from([n for n in QNAMES if "#" + n not in f]))
            present = [v for (n, v) in pairs if n == name]
            multi = [sorted({t[1] for t in e["tags"] if len(t) >= 2 and t[0] == name and isinstance(t[1], str)})
                     for e in store]
            multi = [m for m in multi if len(m) >= 2]
            if multi and draw(st.integers(0, 2)) == 0:
                f["#" + name] = draw(st.sampled_from(multi))  # all values one event carries
            else:
                f["#" + name] = pick(present, QVALS)
        elif c in ("since", "until"):
            f[c] = draw(E.weighted(
                (8, st.sampled_from([E.T0 - 3, E.T0 - 2, E.T0 - 1, E.T0, E.T0 + 1, E.T0 + 2, E.T0 + 3])),
                (1, st.sampled_from([0, 1, 2, 2**24 - 1, 2**24, 2**24 + 1, 2**31 - 1, 2145934799]))))
    if limit is not None:
        lim = draw(limit)
        if lim is not None:
            f["limit"] = lim
    return f


@st.composite
def st_history(draw, max_events=20, **kw):
    """a store plus NIP-09 deletions by own and foreign authors and resubmitted duplicates:
    the list is the arrival order; what is stored afterwards is read from the raw dump"""
    store = draw(st_store(max_events=max_events, **kw))
    extra = []
    for _ in range(draw(weighted_int([5, 3, 2]))):
        tgt = draw(st.sampled_from(store))
        own = draw(st.booleans())
        pk = tgt["pubkey"] if own else draw(st.sampled_from([p for p in PUBS if p != tgt["pubkey"]]))
        extra.append(E.free(draw(st.binary(min_size=32, max_size=32)).hex(), pk, 5,
                            tgt["created_at"] + draw(st.sampled_from([-1, 1, 3])),
                            [["e", tgt["id"]]] + ([["e", draw(st.sampled_from(store))["id"]]] if draw(st.booleans()) else [])))
    if draw(st.integers(0, 3)) == 0:
        extra.append(dict(draw(st.sampled_from(store))))  # duplicate submission
    pos = draw(st.lists(st.integers(0, len(store)), min_size=len(extra), max_size=len(extra)))
    out = list(store)
    for e, p in sorted(zip(extra, pos), key=lambda t: -t[1]):
        out.insert(p, e)
    return out


def weighted_int(weights):
    return E.weighted(*[(w, st.just(i)) for i, w in enumerate(weights)])


@st.composite
def st_store_and_filters(draw, max_filters=3, max_events=20, limit=None, history=False, **kw):
    store = draw(st_history(max_events=max_events, **kw) if history else st_store(max_events=max_events, **kw))
    nf = draw(E.weighted((6, st.just(1)), (2, st.just(2)), (1, st.integers(3, max(3, max_filters)))))
    filters = [draw(st_filter(store, limit=limit)) for _ in range(nf)]
    return {"store": store, "filters": filters}


@st.composite
def st_conjunction(draw):
    """store + filter for a conjunction of two conditions where the events satisfying BOTH are older than several
    'distractors' that satisfy only ONE of them (what an index scan sees first is not what the filter wants)"""
    conds = draw(st.lists(st.sampled_from(["#t", "#p", "kinds", "authors"]), min_size=2, max_size=2, unique=True))
    want = {"#t": "a", "#p": PUBS[2], "kinds": 1, "authors": PUBS[3]}
    other = {"#t": "b", "#p": PUBS[4], "kinds": 7, "authors": PUBS[0]}
    n_match = draw(st.integers(1, 3))
    n_dis = draw(st.integers(1, 5))
    ids = draw(E.st_id_pool(n_match + 2 * n_dis))

    def build(i, sat, ts):
        vals = {c: (want[c] if c in sat else other[c]) for c in ("#t", "#p", "kinds", "authors")}
        tags = [["t", vals["#t"]], ["p", vals["#p"]]]
        if draw(st.booleans()):
            tags.reverse()
        return E.free(ids[i], vals["authors"], vals["kinds"], ts, tags)

    store = []
    k = 0
    for j in range(n_match):
        store.append(build(k, set(conds) | {"#t", "#p", "kinds", "authors"} if draw(st.booleans()) else set(conds), E.T0 - 10 + j))
        k += 1
    for j in range(n_dis):
        store.append(build(k, {conds[0]}, E.T0 + j))
        k += 1
        store.append(build(k, {conds[1]}, E.T0 + j))
        k += 1
    f = {}
    for c in conds:
        f[c] = [want[c]]
    order = draw(st.permutations(store))
    return {"store": list(order), "filters": [f]}


@st.composite
def st_decoy_filters(draw, store):
    """filters aimed at ONE stored event that satisfies a mixture of their conditions but no filter completely:
    (a) ids/second-tag of the event + a tag value that merely extends / is extended by the event's value
    (b) two filters, the event matching the kind of the first and the tag of the second"""
    cands = [e for e in store if any(len(t) >= 2 and len(t[0]) == 1 and isinstance(t[1], str) for t in e["tags"])]
    if not cands:
        return [draw(st_filter(store))]
    e = draw(st.sampled_from(cands))
    tags = [t for t in e["tags"] if len(t) >= 2 and len(t[0]) == 1 and isinstance(t[1], str)]
    t = draw(st.sampled_from(tags))
    near = draw(st.sampled_from([t[1] + "x", t[1] + t[1] + "z", "z" + t[1], t[1] + "\x00"]))
    kind_other = e["kind"] + 1 if e["kind"] < 65535 else 1
    shape = draw(st.integers(0, 5))
    if shape >= 4:
        # a filter the relay drops only AFTER it has looked at some of its values (an empty value list next to a
        # non-empty one), followed by filters that use the same names/values again
        others = [u for u in tags if u[0] != t[0]]
        u = draw(st.sampled_from(others)) if others else ["p", PUBS[0]]
        dropped = {"#" + t[0]: [t[1]], "#" + ("e" if t[0] != "e" else "q"): []}
        if shape == 4:
            return [dropped, {"#" + t[0]: [t[1], near]}]
        return [dropped, {"#" + t[0]: [near], "#" + u[0]: [u[1]]}]
    if shape == 0:
        return [{"ids": [e["id"]], "#" + t[0]: [near]}]
    if shape == 1:
        others = [u for u in tags if u[0] != t[0]]
        if others:
            u = draw(st.sampled_from(others))
            return [{"#" + u[0]: [u[1]], "#" + t[0]: [near]}]
        return [{"authors": [e["pubkey"]], "#" + t[0]: [near]}]
    if shape == 2:
        return [{"kinds": [e["kind"]], "#" + t[0]: [near]}, {"kinds": [kind_other], "#" + t[0]: [t[1]]}]
    return [{"kinds": [e["kind"]], "authors": [e["pubkey"]], "#" + t[0]: [near, near + "y"]},
            {"kinds": [kind_other, kind_other + 1], "#" + t[0]: [t[1]], "limit": 5}]
