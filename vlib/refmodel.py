"""
Reference semantics, written from NIP-01/09/26/33/40 and the property statements,
not from the implementation.

Filters are the raw JSON objects a client sends.  A *condition* is well-formed when
it has the NIP-01 shape; matching is three-valued through a MUST predicate and a
MAY predicate (MUST implies MAY):

  since/until : MUST strictly inside the window, MAY on the bounds
  #x          : MUST for string tag values, MAY when str(value) matches
  ids/authors : MUST for exact lowercase 64-hex; MAY case-insensitively
  authors     : a well-formed NIP-26 delegation tag naming the author also matches
  malformed conditions (wrong JSON types): the relay may ignore the condition,
  coerce it, or reject the filter - MAY either way, never MUST.
"""

HEX = set("0123456789abcdef")
TS_LIMIT = 2145934800


def is_hex64(s):
    return isinstance(s, str) and len(s) == 64 and set(s) <= HEX


def _is_int(x):
    return type(x) is int


def wellformed_filter(f):
    """True when every condition has exactly the NIP-01 shape and values the relay
    documents as acceptable (C02's domain)."""
    if not isinstance(f, dict):
        return False
    for k, v in f.items():
        if k in ("ids", "authors"):
            if not (isinstance(v, list) and v and all(is_hex64(x) for x in v)):
                return False
        elif k == "kinds":
            if not (isinstance(v, list) and v and all(_is_int(x) and 0 <= x <= 65535 for x in v)):
                return False
        elif k in ("since", "until"):
            if not (_is_int(v) and 0 <= v < TS_LIMIT):
                return False
        elif k == "limit":
            if not (_is_int(v) and v >= 0):
                return False
        elif isinstance(k, str) and k.startswith("#") and len(k) == 2:
            if not (isinstance(v, list) and v and all(isinstance(x, str) for x in v)):
                return False
        else:
            return False
    return True


def has_condition(f):
    """does the filter restrict anything besides limit (relay refuses pure range-less scans)"""
    return any(k != "limit" for k in f) and not all(
        k == "limit" or (k in ("since", "until") and f[k] == 0) for k in f)


def _tags(ev):
    return [t for t in ev.get("tags", []) if isinstance(t, (list, tuple)) and len(t) >= 1]


def _delegators(ev, strict):
    out = []
    for t in _tags(ev):
        if t[0] == "delegation" and len(t) >= 2 and isinstance(t[1], str):
            if strict and not (len(t) == 4 and all(isinstance(x, str) for x in t)):
                continue
            out.append(t[1])
    return out


def match(ev, f, mode):
    """mode 'must' or 'may'. f: raw filter dict."""
    must = mode == "must"
    if not isinstance(f, dict):
        return False
    for k, v in f.items():
        if k == "ids":
            if not isinstance(v, list):
                if must:
                    return False
                continue
            vals = [x for x in v if isinstance(x, str)]
            if must:
                if ev["id"] not in vals:
                    return False
            elif ev["id"].lower() not in [x.lower() for x in vals]:
                return False
        elif k == "authors":
            if not isinstance(v, list):
                if must:
                    return False
                continue
            vals = [x for x in v if isinstance(x, str)]
            if must:
                if ev["pubkey"] not in vals and not any(d in vals for d in _delegators(ev, True)):
                    return False
            else:
                lv = [x.lower() for x in vals]
                if ev["pubkey"].lower() not in lv and not any(
                        d.lower() in lv for d in _delegators(ev, False)):
                    return False
        elif k == "kinds":
            if not isinstance(v, list):
                if must:
                    return False
                continue
            if must:
                if not any(_is_int(x) and x == ev["kind"] for x in v):
                    return False
            else:
                ok = False
                for x in v:
                    try:
                        if int(x) == ev["kind"]:  # "1", 1.0, true: coercion is not specified
                            ok = True
                    except (TypeError, ValueError, OverflowError):
                        pass
                if not ok:
                    return False
        elif k in ("since", "until"):
            if must:
                if not _is_int(v):
                    return False
                if k == "since" and not ev["created_at"] > v:
                    return False
                if k == "until" and not ev["created_at"] < v:
                    return False
            else:
                try:
                    iv = int(v)
                except (TypeError, ValueError, OverflowError):
                    continue  # malformed bound: relay may ignore or reject
                if k == "since" and not ev["created_at"] >= iv:
                    return False
                if k == "until" and not ev["created_at"] <= iv:
                    return False
        elif isinstance(k, str) and k.startswith("#") and len(k) == 2:
            # only one-character names are queryable; longer '#..' keys are unknown keys
            name = k[1:]
            if not isinstance(v, list):
                if must:
                    return False
                continue
            ok = False
            for t in _tags(ev):
                if t[0] == name and len(t) == 1 and not must and "" in v:
                    ok = True  # a bare tag has no value; treating it as "" is tolerated
                if t[0] == name and len(t) > 1:
                    if isinstance(t[1], str):
                        if t[1] in v:
                            ok = True
                    elif not must:
                        try:
                            if str(t[1]) in v or t[1] in v:
                                ok = True
                        except TypeError:
                            pass
            if not ok:
                return False
        else:
            continue  # limit, search, unknown keys: not conditions
    return True


def must_match(ev, f):
    return match(ev, f, "must")


def may_match(ev, f):
    return match(ev, f, "may")


def effective_limit(f, max_limit):
    lim = f.get("limit") if isinstance(f, dict) else None
    if type(lim) is int and lim >= 0:
        return min(lim, max_limit)
    return max_limit


# ---------------------------------------------------------------- store model


def is_replaceable(kind):
    return kind in (0, 3) or 10000 <= kind < 20000


def is_param_replaceable(kind):
    return 30000 <= kind < 40000


def is_ephemeral(kind):
    return 20000 <= kind < 30000


def d_value(ev):
    """NIP-33: absent == bare == empty"""
    for t in _tags(ev):
        if t[0] == "d":
            if len(t) > 1 and isinstance(t[1], str):
                return t[1]
            return ""
    return ""


def address(ev):
    """replaceable address or None for regular events"""
    if is_replaceable(ev["kind"]):
        return (ev["pubkey"], ev["kind"], None)
    if is_param_replaceable(ev["kind"]):
        return (ev["pubkey"], ev["kind"], d_value(ev))
    return None
