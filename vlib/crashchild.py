"""
Child process for C07's SQL kill points:  python -m vlib.crashchild <case.json>

Replays events[0..i-1] cleanly on a file-backed SQLite database (WAL, as the relay configures it),
then applies event i with a listener that calls os._exit(137) right before the k-th statement.
The parent reopens the file with the stdlib sqlite3 module.
"""
import json
import os
import sys

sys.path.insert(0, os.path.dirname(os.path.dirname(os.path.abspath(__file__))))

from vlib import bootstrap  # noqa: E402

bootstrap.init()

from vlib import harness as H  # noqa: E402


async def main(case):
    import sqlalchemy as sa

    rig = H.Rig("sql", validators=[], file_db=case["db"])
    await rig.open()
    for ev in case["events"][: case["i"]]:
        await rig.add(ev)
    n = [0]

    def before(conn, cursor, statement, parameters, context, executemany):
        if n[0] == case["k"]:
            os._exit(137)
        n[0] += 1

    sa.event.listen(rig.storage.db.sync_engine, "before_cursor_execute", before)
    await rig.add(case["events"][case["i"]])
    os._exit(3)  # the kill point was never reached


if __name__ == "__main__":
    H.run(main, json.load(open(sys.argv[1])))
