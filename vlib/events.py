"""
Event factory: fixed keys, real signing, free-mode events, independent verifier,
and Hypothesis building blocks shared by the property modules.
Events are plain JSON-able dicts everywhere in the harness.
"""
import hashlib
import json
import re

from coincurve import PrivateKey, PublicKeyXOnly
from hypothesis import strategies as st

NKEYS = 6
SKS = [hashlib.sha256(b"verif-key-%d" % i).hexdigest() for i in range(NKEYS)]
PKS = [PrivateKey(bytes.fromhex(s)).public_key_xonly.format().hex() for s in SKS]

T0 = 1_700_000_000

# pubkeys / ids chosen to be adjacent in byte order (free mode only)
ADJ_HEX = [
    "00" * 32,
    "00" * 31 + "01",
    "00ff" + "00" * 30,
    "ab" * 31 + "00",
    "ab" * 31 + "01",
    "ab" * 32,
    "ff" * 31 + "fe",
    "ff" * 32,
]

TAG_VALUES = [
    "", "a", "ab", "abc", "ab\x00", "a b", ":x", "a :b", "'", "''", "\\", "%", "_",
    "x' OR '1'='1", '"', "\x00", "\U0001F600", "é", "A", "b",
]
TAG_NAMES = ["e", "p", "d", "t", "a", "r", "q"]
KINDS = [0, 1, 3, 4, 5, 7, 9999, 10000, 10005, 19999, 30000, 30001, 39999, 40000, 65535]
EPHEMERAL = [20000, 22242, 29999]


def canonical(pubkey, created_at, kind, tags, content):
    """NIP-01 canonical serialization, written independently of aionostr."""
    return json.dumps(
        [0, pubkey, created_at, kind, tags, content],
        separators=(",", ":"),
        ensure_ascii=False,
    ).encode("utf-8")


def compute_id(pubkey, created_at, kind, tags, content):
    return hashlib.sha256(canonical(pubkey, created_at, kind, tags, content)).hexdigest()


_CTRL = re.compile(r"\\u00([0-9a-f]{2})")


def candidate_ids(pubkey, created_at, kind, tags, content):
    """NIP-01 wants control characters other than \\n \\r \\t \\b \\f verbatim; Python's json writes them as
    \\u00xx (lower-case hex) and rapidjson (used by aionostr) as \\u00XX.  Which of these a relay hashes is an
    interoperability matter outside the listed properties, so all three renderings count as 'the hash'."""
    base = canonical(pubkey, created_at, kind, tags, content)
    text = base.decode("utf-8")
    out = {hashlib.sha256(base).hexdigest()}
    if "\\u00" in text:
        upper = _CTRL.sub(lambda m: "\\u00" + m.group(1).upper(), text)
        out.add(hashlib.sha256(upper.encode("utf-8")).hexdigest())
        raw = _CTRL.sub(lambda m: chr(int(m.group(1), 16)), text)
        out.add(hashlib.sha256(raw.encode("utf-8")).hexdigest())
    return out


def sign_id(k, idhex):
    return PrivateKey(bytes.fromhex(SKS[k])).sign_schnorr(bytes.fromhex(idhex), None).hex()


def make(k=0, kind=1, created_at=T0, tags=None, content=""):
    """A real, signed event by key k."""
    tags = [list(t) for t in (tags or [])]
    pk = PKS[k]
    eid = compute_id(pk, created_at, kind, tags, content)
    return {
        "id": eid,
        "pubkey": pk,
        "created_at": created_at,
        "kind": kind,
        "tags": tags,
        "content": content,
        "sig": sign_id(k, eid),
    }


def free(idhex, pubkey, kind=1, created_at=T0, tags=None, content=""):
    """Free-mode event (for storages configured with validators: [])."""
    return {
        "id": idhex,
        "pubkey": pubkey,
        "created_at": created_at,
        "kind": kind,
        "tags": [list(t) for t in (tags or [])],
        "content": content,
        "sig": "00" * 64,
    }


def delegation_tag(delegator_k, delegatee_pk, conditions="kind=1"):
    token = ":".join(["nostr", "delegation", delegatee_pk, conditions]).encode("utf8")
    sig = PrivateKey(bytes.fromhex(SKS[delegator_k])).sign_schnorr(
        hashlib.sha256(token).digest(), None
    )
    return ["delegation", PKS[delegator_k], conditions, sig.hex()]


def is_hex(s, n):
    return isinstance(s, str) and len(s) == n and all(c in "0123456789abcdef" for c in s)


def authentic(ev):
    """Independent statement of C03's authenticity; returns (bool, why)."""
    try:
        if not isinstance(ev, dict):
            return False, "not an object"
        for f, n in (("id", 64), ("pubkey", 64), ("sig", 128)):
            if not is_hex(ev.get(f), n):
                return False, "%s not lowercase hex of length %d" % (f, n)
        if type(ev.get("created_at")) is not int or type(ev.get("kind")) is not int:
            return False, "created_at/kind not integers"
        if not isinstance(ev.get("content"), str):
            return False, "content not a string"
        tags = ev.get("tags")
        if not isinstance(tags, list) or not all(isinstance(t, list) for t in tags):
            return False, "tags not a list of lists"
        if ev["id"] not in candidate_ids(ev["pubkey"], ev["created_at"], ev["kind"], tags, ev["content"]):
            return False, "id is not the hash"
        try:
            pub = PublicKeyXOnly(bytes.fromhex(ev["pubkey"]))
            if not pub.verify(bytes.fromhex(ev["sig"]), bytes.fromhex(ev["id"])):
                return False, "bad signature"
        except Exception:
            return False, "bad signature/pubkey"
        for t in tags:
            if t and t[0] == "delegation":
                if len(t) != 4 or not all(isinstance(x, str) for x in t):
                    return False, "malformed delegation tag"
                token = ":".join(["nostr", "delegation", ev["pubkey"], t[2]]).encode("utf8")
                try:
                    ok = PublicKeyXOnly(bytes.fromhex(t[1])).verify(
                        bytes.fromhex(t[3]), hashlib.sha256(token).digest()
                    )
                except Exception:
                    ok = False
                if not ok:
                    return False, "forged delegation"
        return True, ""
    except Exception as e:  # pragma: no cover
        return False, "verifier error %r" % (e,)


# ---------------------------------------------------------------- strategies


def weighted(*pairs):
    """weighted choice between strategies: weighted((7, a), (1, b)).
    (st.one_of de-duplicates repeated strategy objects, so repetition does not weight.)"""
    total = sum(w for w, _ in pairs)

    @st.composite
    def pick(draw):
        i = draw(st.integers(0, total - 1))
        for w, s in pairs:
            if i < w:
                return draw(s)
            i -= w

    return pick()


ts_grid = st.sampled_from([T0 - 2, T0 - 1, T0, T0 + 1, T0 + 2])
ts_any = weighted(
    (4, ts_grid),
    (1, st.sampled_from([1, 2, 255, 256, 2**24 - 1, 2**24, 2**24 + 1, 2**31 - 1, T0 + 1000])),
)
kinds = st.sampled_from(KINDS)
tag_value = st.sampled_from(TAG_VALUES)
tag_name = st.sampled_from(TAG_NAMES)


def st_tag(names=tag_name, values=tag_value):
    return weighted(
        (6, st.tuples(names, values).map(list)),
        (1, st.tuples(names, values, values).map(list)),
        (1, st.tuples(st.sampled_from(["é", "expiration", "nonce", "tt"]), values).map(list)),
    )


def st_tags(max_size=4, **kw):
    return st.lists(st_tag(**kw), max_size=max_size)


@st.composite
def st_free_event(draw, ids=None, pubkeys=None, kind_st=kinds, ts=ts_any, tags=None):
    idhex = draw(ids if ids is not None else st.binary(min_size=32, max_size=32).map(bytes.hex))
    pk = draw(pubkeys if pubkeys is not None else st.sampled_from(ADJ_HEX[:6]))
    return free(
        idhex,
        pk,
        kind=draw(kind_st),
        created_at=draw(ts),
        tags=draw(tags if tags is not None else st_tags()),
        content=draw(st.sampled_from(["", "x", "hello 'world'"])),
    )


def st_id_pool(n):
    """n distinct ids, biased to adjacency (shared 31-byte prefixes, 00/ff edges)."""
    edge = st.sampled_from(ADJ_HEX)
    near = st.tuples(st.sampled_from(["00" * 31, "ab" * 31, "ff" * 31, "7f" * 31]),
                     st.integers(0, 255)).map(lambda t: t[0] + "%02x" % t[1])
    rnd = st.binary(min_size=32, max_size=32).map(bytes.hex)
    return st.lists(weighted((2, edge), (4, near), (2, rnd)), min_size=n, max_size=n, unique=True)
