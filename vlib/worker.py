"""
Worker process: runs one shard of one sub-check (or the replays of a property)
and writes a JSON summary to the given file.

  python -m vlib.worker run    <prop> <sub> <shard> <nshards> <tier> <seed> <out.json> <armed,comma>
  python -m vlib.worker replay <prop> <out.json> <file> [<file> ...]
"""
import faulthandler
import hashlib
import importlib
import json
import os
import sys
import time
import traceback

HERE = os.path.dirname(os.path.dirname(os.path.abspath(__file__)))
sys.path.insert(0, HERE)

from vlib import bootstrap  # noqa: E402


def load(prop):
    bootstrap.init(bootstrap.MAX_LIMITS.get(prop, bootstrap.DEFAULT_MAX_LIMIT))
    mod = importlib.import_module("props.%s" % prop.lower())
    return mod


def sub_by_name(mod, name):
    for s in mod.SUBCHECKS:
        if s.name == name:
            return s
    raise SystemExit("HARNESS-ERROR unknown sub-check %s" % name)


class ViolationFound(Exception):
    pass


def derive_seed(*parts):
    h = hashlib.sha256("/".join(str(p) for p in parts).encode()).digest()
    return int.from_bytes(h[:8], "big")


def _atheris():
    """atheris (libFuzzer for Python) from /verif/.deps if MANIFEST.setup_cmd could install it, else None."""
    deps = os.path.join(HERE, ".deps")
    if os.path.isdir(deps) and deps not in sys.path:
        sys.path.append(deps)
    try:
        import atheris
        return atheris
    except Exception:
        return None


def run_shard(prop, subname, shard, nshards, tier, seed, armed, outfile=None):
    ath = _atheris() if os.environ.get("VERIF_CGFUZZ") == "1" else None
    if ath is not None:
        # coverage feedback comes from the relay's own modules only (bytecode instrumentation at import)
        # (the hook stays installed: the storage modules are imported lazily by the harness)
        ath.instrument_imports(include=["nostr_relay"], enable_loader_override=False).__enter__()
        mod = load(prop)
    else:
        mod = load(prop)  # must come first: fixes Config.max_limit before storage modules are imported
    from vlib.core import Recorder
    from vlib.harness import HarnessError

    sub = sub_by_name(mod, subname)
    rec = Recorder()
    out = {"prop": prop, "sub": subname, "shard": shard, "violations": [], "harness_errors": []}
    best = {}
    shrink_budget = 25.0 if tier == "quick" else 240.0
    state = {"t_fail": None, "stop": False}

    def handle(case, count=True):
        state["last_case"] = case
        res = sub.run_case(case)
        if count:
            rec.case(case, res)
        bad = []
        for v in res.violations:
            if v["sig"] in armed:
                if count:
                    rec.excluded(v["sig"])
            else:
                bad.append(v)
        return res, bad

    t0 = time.time()
    try:
        if sub.mode == "enumerate":
            for i, case in enumerate(sub.enumerate(tier)):
                if i % nshards != shard:
                    continue
                res, bad = handle(case)
                if bad:
                    best = {"case": case, "v": bad[0]}
                    break
        else:
            import hypothesis
            from hypothesis import HealthCheck, Phase, given, settings

            n_total = int(os.environ.get("VERIF_EXAMPLES", sub.examples[tier]))
            n = max(1, n_total // nshards)
            hseed = derive_seed(seed, prop, subname, shard)

            @hypothesis.seed(hseed)
            @settings(
                max_examples=n,
                database=None,
                deadline=None,
                derandomize=False,
                report_multiple_bugs=False,
                suppress_health_check=list(HealthCheck),
                phases=[Phase.generate, Phase.shrink],
                print_blob=False,
            )
            @given(sub.strategy(tier))
            def test(case):
                if state["stop"]:
                    return
                shrinking = state["t_fail"] is not None
                if shrinking and time.time() - state["t_fail"] > shrink_budget:
                    state["stop"] = True
                    return
                res, bad = handle(case, count=not shrinking)
                if bad:
                    size = len(json.dumps(case, default=repr))
                    if not best or size <= best["size"]:
                        best.update(case=case, v=bad[0], size=size)
                    if state["t_fail"] is None:
                        state["t_fail"] = time.time()
                    raise ViolationFound(bad[0]["sig"])

            try:
                if sub.mode == "cgfuzz" and ath is not None:
                    _run_cgfuzz(ath, test, n, hseed, state, rec, out, best, t0, outfile)
                else:
                    if sub.mode == "cgfuzz":
                        rec.labels["engine:hypothesis-fallback(atheris unavailable)"] = 1
                    test()
            except ViolationFound:
                pass
            except HarnessError:
                raise
            except BaseException as e:  # Flaky after budget stop, etc.
                if not best:
                    raise
    except HarnessError as e:
        out["harness_errors"].append("%s" % e)
        _save_harness_case(prop, subname, shard, state.get("last_case"))
    except Exception:
        out["harness_errors"].append(traceback.format_exc()[-3000:])
        _save_harness_case(prop, subname, shard, state.get("last_case"))
    if best:
        out["violations"].append({"case": best["case"], "v": best["v"]})
    out.update(rec.summary())
    out["wall_s"] = time.time() - t0
    return out


def _run_cgfuzz(ath, test, n, hseed, state, rec, out, best, t0, outfile):
    """Coverage-guided campaign: libFuzzer (atheris) mutates the byte string that Hypothesis decodes into a
    case of the sub-check's strategy (test.hypothesis.fuzz_one_input), guided by edge coverage of nostr_relay.
    libFuzzer never returns from Fuzz(), so the shard summary is written from inside the target when the run
    budget is used up or a violation was found (the found case is then ddmin-free: it is replayed as is)."""
    fuzz_one = test.hypothesis.fuzz_one_input
    cnt = {"n": 0}

    def done():
        if best:
            out["violations"].append({"case": best["case"], "v": best["v"]})
        rec.labels["engine:atheris-libfuzzer"] = cnt["n"]
        out.update(rec.summary())
        out["wall_s"] = time.time() - t0
        tmp = outfile + ".tmp"
        with open(tmp, "w") as fp:
            json.dump(out, fp, default=repr)
        os.replace(tmp, outfile)
        sys.stdout.flush()
        os._exit(0)

    def target(data):
        cnt["n"] += 1
        try:
            fuzz_one(data)
        except ViolationFound:
            done()
        except BaseException:
            out["harness_errors"].append(traceback.format_exc()[-3000:])
            done()
        if rec.evaluations >= n or cnt["n"] >= n * 50:  # inputs too short to decode into a case are not counted
            done()

    argv = [sys.argv[0], "-runs=%d" % (n * 60), "-seed=%d" % (hseed % (2**31 - 1) + 1), "-max_len=8192",
            "-timeout=600", "-rss_limit_mb=0", "-print_final_stats=0", "-verbosity=%s" % os.environ.get("VERIF_CG_VERBOSITY", "0"), "-len_control=0"]
    ath.Setup(argv, target)
    ath.Fuzz()
    done()


def _save_harness_case(prop, subname, shard, case):
    try:
        os.makedirs(os.path.join(HERE, "out"), exist_ok=True)
        with open(os.path.join(HERE, "out", "HARNESS-%s-%s-%s.json" % (prop, subname, shard)), "w") as fp:
            json.dump({"property": prop, "subcheck": subname, "case": case}, fp, default=repr)
    except Exception:
        pass


def run_replays(prop, files):
    mod = load(prop)
    from vlib.harness import HarnessError

    res = []
    for f in files:
        entry = {"file": f, "violations": [], "error": None}
        try:
            data = json.load(open(f))
            sub = sub_by_name(mod, data["subcheck"])
            r = sub.run_case(data["case"])
            entry["violations"] = r.violations
        except HarnessError as e:
            entry["error"] = str(e)
        except Exception:
            entry["error"] = traceback.format_exc()[-3000:]
        res.append(entry)
    return res


def main(argv):
    faulthandler.enable()
    if os.environ.get("VERIF_DUMP_AFTER"):  # debugging aid: periodic stack dumps of a worker that seems stuck
        faulthandler.dump_traceback_later(int(os.environ["VERIF_DUMP_AFTER"]), repeat=True)
    mode = argv[1]
    if mode == "run":
        prop, subname, shard, nshards, tier, seed, outfile, armed = argv[2:10]
        armed = set(a for a in armed.split(",") if a)
        out = run_shard(prop, subname, int(shard), int(nshards), tier, int(seed), armed, outfile)
    elif mode == "replay":
        prop, outfile = argv[2:4]
        out = {"replays": run_replays(prop, argv[4:])}
    elif mode == "list":
        prop, outfile = argv[2:4]
        mod = load(prop)
        out = {
            "level": getattr(mod, "LEVEL", "exploration"),
            "rule": getattr(mod, "RULE", ""),
            "assumptions": getattr(mod, "ASSUMPTIONS", []),
            "subs": [
                {"name": s.name, "mode": s.mode, "shards": s.shards, "examples": s.examples,
                 "rule": s.rule, "exhaustive": bool(s.exhaustive)}
                for s in mod.SUBCHECKS
            ],
        }
    else:
        raise SystemExit("bad mode")
    tmp = outfile + ".tmp"
    with open(tmp, "w") as fp:
        json.dump(out, fp, default=repr)
    os.replace(tmp, outfile)
    sys.stdout.flush()
    os._exit(0)  # never hang on a stray non-daemon thread


if __name__ == "__main__":
    main(sys.argv)
