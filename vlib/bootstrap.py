"""
Process bootstrap: sys.path (shims + the repository working tree), Config, logging.

Must run before anything imports nostr_relay.storage.* because Config.max_limit is
captured into default arguments at import time of storage/base.py.
"""
import logging
import os
import sys

VERIF = os.path.dirname(os.path.dirname(os.path.abspath(__file__)))
REPO = os.environ.get("VERIF_REPO", "/repo")
GUARD = "NOSTR_RELAY_VERIF"

# max_limit wanted at import time, per property (small so the cap is reachable)
MAX_LIMITS = {"C12": 7, "C19": 1000}
DEFAULT_MAX_LIMIT = 60

SERVICE_SK = "9627da965699a2a3048f97b77df5047e8cd0d11daca75e7687d0b28b65416a3c"

_inited = False


def init(max_limit=DEFAULT_MAX_LIMIT):
    global _inited
    if _inited:
        return
    _inited = True
    os.environ[GUARD] = "1"
    sys.dont_write_bytecode = True  # never leave .pyc files in the repository's working tree
    for p in (os.path.join(VERIF, "shims"), REPO, VERIF):
        if p in sys.path:
            sys.path.remove(p)
    sys.path.insert(0, VERIF)
    sys.path.insert(0, os.path.join(VERIF, "shims"))
    sys.path.insert(0, REPO)
    logging.disable(logging.CRITICAL)
    from nostr_relay.config import Config, ConfigClass

    ConfigClass.max_limit = max_limit
    reset_config()
    import nostr_relay

    got = os.path.dirname(os.path.dirname(os.path.abspath(nostr_relay.__file__)))
    if os.path.realpath(got) != os.path.realpath(REPO):
        print("HARNESS-ERROR nostr_relay imported from %s not %s" % (got, REPO))
        sys.exit(2)


def reset_config(**over):
    """Reset the Config singleton to the harness baseline, then apply overrides."""
    from nostr_relay.config import Config

    Config.__dict__.clear()
    Config.__init__()
    Config._is_loaded = True
    Config.authentication = {}
    Config.analysis_delay = 0.0
    Config.logging = {}
    Config.garbage_collector = {}
    Config.subscription_limit = 32
    Config.storage = {"sqlalchemy.url": "sqlite+aiosqlite:///:memory:"}
    for k, v in over.items():
        setattr(Config, k, v)
    return Config
