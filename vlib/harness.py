"""
Relay driver: virtual-clock event loop, storage fixtures for both backends,
simulated websocket connections, settle(), raw dumps below the relay.

LMDB runs in *deterministic mode*: no writer thread and no query pool threads;
the writer's own run() is called synchronously by pump() to apply queued writes.
SQL keeps aiosqlite's connection threads (the harness waits for them in settle()).
"""
import asyncio
import collections
import concurrent.futures
import itertools
import json
import logging
import os
import sqlite3
import time as _time

from . import bootstrap

bootstrap.init()

import falcon  # noqa: E402
from nostr_relay.config import Config  # noqa: E402
from nostr_relay.rate_limiter import NullRateLimiter  # noqa: E402
from nostr_relay import web  # noqa: E402
from nostr_relay.util import Periodic  # noqa: E402


class HarnessError(Exception):
    """Something went wrong in the harness itself: never a violation."""


# ------------------------------------------------------------------ clock/loop


class Clock:
    """Wall clock seen by the relay (validators.time, auth.time, db.time, kv.time)."""

    def __init__(self, now=1_700_000_000.0):
        self.now = float(now)

    def __call__(self):
        return self.now


class VLoop(asyncio.SelectorEventLoop):
    """Event loop whose time() can be jumped forward to fire the next timer."""

    def __init__(self):
        super().__init__()
        self._voffset = 0.0

    def time(self):
        return _time.monotonic() + self._voffset

    def jump_to_next_timer(self):
        live = [h for h in self._scheduled if not h._cancelled]
        if not live:
            return False
        when = min(h._when for h in live)
        delta = when - self.time()
        if delta > 0:
            self._voffset += delta + 1e-6
        return True


class InlineExecutor(concurrent.futures.ThreadPoolExecutor):
    """Runs jobs inline (or parks them when .park is set) - no threads."""

    def __init__(self):
        super().__init__(max_workers=1)
        self.park = False
        self.parked = []

    def submit(self, fn, *a, **kw):
        fut = concurrent.futures.Future()
        job = (fut, fn, a, kw)
        if self.park:
            self.parked.append(job)
        else:
            self._run(job)
        return fut

    @staticmethod
    def _run(job):
        fut, fn, a, kw = job
        if not fut.set_running_or_notify_cancel():
            return
        try:
            fut.set_result(fn(*a, **kw))
        except BaseException as e:  # noqa
            fut.set_exception(e)

    def release(self, i=0):
        if self.parked:
            self._run(self.parked.pop(min(i, len(self.parked) - 1)))
            return True
        return False

    def release_all(self):
        while self.release():
            pass


def run(coro_fn, *a, timeout=120, **kw):
    """Run one case on a fresh virtual-clock loop; everything is torn down after."""
    loop = VLoop()
    ex = InlineExecutor()
    loop.set_default_executor(ex)
    loop.inline_executor = ex
    asyncio.set_event_loop(loop)
    try:
        return loop.run_until_complete(coro_fn(*a, **kw))
    finally:
        try:
            # cancel what is left; a task that swallows its cancellation and blocks again (e.g. on a full queue) must
            # not hang the harness: give up on it after a few rounds
            for _ in range(3):
                pend = [t for t in asyncio.all_tasks(loop) if not t.done()]
                if not pend:
                    break
                for t in pend:
                    t.cancel()
                loop.run_until_complete(asyncio.wait(pend, timeout=0.3))
            Periodic._running_tasks.clear()
            Periodic._pending_tasks.clear()
        finally:
            asyncio.set_event_loop(None)
            ex.shutdown(wait=False)
            loop.close()


# ------------------------------------------------------------------ storages


class _QueueItems:
    """len()/bool()/clear() view of the wrapped queue (what the checks use to look at / drop the backlog)"""

    def __init__(self, inner):
        self.inner = inner

    def __len__(self):
        return self.inner.qsize()

    def __bool__(self):
        return not self.inner.empty()

    def clear(self):
        import queue

        try:
            while True:
                self.inner.get_nowait()
        except queue.Empty:
            pass


class PumpQueue:
    """Wrapper around the writer thread's OWN queue object (whatever class the storage built - the queue discipline is the
    relay's): get() returns None when the budget is used up or the queue is empty, which makes WriterThread.run() return."""

    def __init__(self, inner=None):
        import queue

        self.inner = inner if inner is not None else queue.SimpleQueue()
        self.items = _QueueItems(self.inner)
        self.budget = 0

    def put(self, x, *a, **kw):
        self.inner.put(x, *a, **kw)

    def put_nowait(self, x):
        self.inner.put(x)

    def get(self, block=True, timeout=None):
        import queue

        if self.budget <= 0:
            return None
        try:
            x = self.inner.get_nowait()
        except queue.Empty:
            return None
        self.budget -= 1
        return x

    def get_nowait(self):
        import queue

        if self.budget <= 0:
            raise queue.Empty()
        x = self.inner.get_nowait()
        self.budget -= 1
        return x

    def qsize(self):
        return self.inner.qsize()

    def empty(self):
        return self.inner.empty()


_kv_counter = itertools.count()
_clock_targets = None


def set_clock(clock):
    """Point every wall-clock reader of the relay at `clock` (a callable)."""
    import nostr_relay.validators as v
    import nostr_relay.auth as a
    import nostr_relay.storage.db as db

    v.time = clock
    a.time = clock
    db.time = clock
    web.time = clock
    try:
        import nostr_relay.storage.kv as kv

        kv.time = clock
    except Exception:
        pass


class Rig:
    """One storage of one backend plus helpers; use `async with Rig(...)`."""

    def __init__(self, backend, validators=None, config=None, clock=None, path=None,
                 file_db=None, storage_opts=None, analysis_backlog=0):
        self.backend = backend
        self.validators = validators
        self.config = config or {}
        self.clock = clock or Clock()
        self.path = path
        self.file_db = file_db
        self.storage_opts = storage_opts or {}
        self.analysis_backlog = analysis_backlog  # LMDB: plans already waiting for the (slow) analysis thread, 0..30
        self.storage = None
        self.conns = []
        self.stuck = []  # set by settle(): coroutine chains of tasks blocked on a lock nobody will release

    async def __aenter__(self):
        await self.open()
        return self

    async def __aexit__(self, *exc):
        await self.close()

    async def open(self):
        bootstrap.reset_config(**self.config)
        set_clock(self.clock)
        import nostr_relay.storage as st_mod

        st_mod._STORAGE = None
        opts = dict(self.storage_opts)
        if self.validators is not None:
            opts["validators"] = list(self.validators)
        if self.backend == "sql":
            from nostr_relay.storage.db import DBStorage
            from nostr_relay.storage import get_metadata

            if self.file_db is True:
                # a real file (connection pool of several connections, WAL) instead of one shared :memory: connection
                import tempfile

                # scratch database: memory-backed file system when there is one (removed in close())
                base = "/dev/shm" if os.access("/dev/shm", os.W_OK) else (
                    os.environ.get("VERIF_TMP") or os.path.join(bootstrap.VERIF, "out"))
                os.makedirs(base, exist_ok=True)
                self._tmpdir = tempfile.mkdtemp(prefix="verif-sqlite-", dir=base)
                self.file_db = os.path.join(self._tmpdir, "nostr.sqlite3")
            url = "sqlite+aiosqlite:///" + (self.file_db or ":memory:")
            opts["sqlalchemy.url"] = url
            Config.storage = dict(opts)
            s = DBStorage(opts)
            await s.setup()
            async with s.db.begin() as conn:
                await conn.run_sync(get_metadata().create_all)
        elif self.backend == "kv":
            import lmdb
            from nostr_relay.storage import kv

            if not getattr(kv.WriterThread, "_verif_patched", False):
                kv.WriterThread.start = lambda self: None
                kv.WriterThread.join = lambda self, timeout=None: None
                kv.WriterThread._verif_patched = True
                kv.analyze.ANALYSIS_THREAD = object()  # never start the analysis thread
                kv._verif_analysis_size = kv.ANALYSIS_QUEUE.maxsize
            # the statistics queue is process-global and drained by a thread at one entry per analysis_delay: the harness
            # never runs that thread (the slowest consumer there is) and starts every storage with a queue of its own
            import queue as _queue

            kv.ANALYSIS_QUEUE = _queue.Queue(maxsize=kv._verif_analysis_size)
            for _ in range(min(self.analysis_backlog or 0, kv._verif_analysis_size)):
                kv.ANALYSIS_QUEUE.put_nowait(kv.QueryPlans())
            if self.path is None:
                self.path = "/verif-kv/%d-%d" % (os.getpid(), next(_kv_counter))
                lmdb._reset(self.path)
            opts["class"] = "nostr_relay.storage.kv.LMDBStorage"
            opts["path"] = self.path
            Config.storage = dict(opts)
            s = kv.LMDBStorage(opts)
            s.query_pool.shutdown(wait=False)
            s.query_pool = InlineExecutor()
            await s.setup()
            q = PumpQueue(s.writer_thread.queue)
            s.writer_thread.queue = q
            s.writer_queue = q
        else:
            raise HarnessError("unknown backend %r" % self.backend)
        st_mod._STORAGE = s
        self.storage = s
        # the periodic statistics logger only adds a 60 s timer the virtual clock would have to step through
        if s.stat_collector._task is not None:
            s.stat_collector._task.cancel()
        return s

    async def close(self):
        self.release_query_slots()
        for c in list(self.conns):
            if not c.task.done():
                await c.disconnect()
        if self.storage is not None:
            s, self.storage = self.storage, None
            if self.backend == "kv":
                s.writer_queue.items.clear()
                s.query_pool.shutdown(wait=False)
            await s.close()
            if s.stat_collector._task:
                s.stat_collector._task.cancel()
        if getattr(self, "_tmpdir", None):
            import shutil

            shutil.rmtree(self._tmpdir, ignore_errors=True)
            self._tmpdir = None

    # -- writer control (LMDB)
    def pump(self, k=None):
        """Apply k queued writes (all if None). Returns number applied."""
        if self.backend != "kv":
            return 0
        q = self.storage.writer_queue
        n0 = len(q.items)
        q.budget = n0 if k is None else k
        self.storage.writer_thread.running = True
        self.storage.writer_thread.run()
        q.budget = 0
        return n0 - len(q.items)

    def pending_writes(self):
        return len(self.storage.writer_queue.items) if self.backend == "kv" else 0

    # -- direct API
    async def add(self, ev, token=None, pump=True):
        """storage.add_event; returns (True|False, reason). Exceptions -> (False, str)."""
        from nostr_relay.errors import StorageError, AuthenticationError

        try:
            _, changed = await self.storage.add_event(json.loads(json.dumps(ev)), auth_token=token)
            reason = "" if changed else "duplicate"
            res = (bool(changed), reason)
        except (StorageError, AuthenticationError) as e:
            res = (False, str(e))
        except Exception as e:  # what web.py turns into OK false too
            res = (False, "EXC %s: %s" % (type(e).__name__, e))
        if pump:
            self.pump()
        await self.settle(pump=pump)
        return res

    async def query(self, filters):
        """run_single_query -> list of event dicts"""
        out = []
        fl = json.loads(json.dumps(filters))
        async for e in self.storage.run_single_query(fl):
            out.append(ev_to_dict(e))
        return out

    async def settle(self, pump=True):
        await settle(self, pump=pump)

    async def req(self, filters, token=None, close=True):
        """storage.subscribe the way web.start_client does; returns (events, eose_count, error).
        Events are those queued before the (sub_id, None) sentinel."""
        from nostr_relay.util import ClientID
        from nostr_relay.errors import StorageError, AuthenticationError

        cid = ClientID("10.9.9.9")
        q = asyncio.Queue()
        err = None
        try:
            await self.storage.subscribe(cid, "q", json.loads(json.dumps(filters)), q,
                                         auth_token=token if token is not None else {})
        except (StorageError, AuthenticationError) as e:
            err = str(e)
        except Exception as e:  # web.py closes the connection on these
            err = "EXC %s: %s" % (type(e).__name__, e)
        await settle(self)
        evs, eose = [], 0
        while not q.empty():
            sid, ev = q.get_nowait()
            if ev is None:
                eose += 1
            elif eose == 0:
                evs.append(ev_to_dict(ev))
        if close:
            await self.storage.unsubscribe(cid, "q")
            await self.storage.unsubscribe(cid)
            await settle(self)
        return evs, eose, err

    async def dump(self):
        """All stored events, read below the relay. {id: event dict}"""
        if self.backend == "sql":
            out = {}
            async with self.storage.db.connect() as conn:
                import sqlalchemy as sa

                res = await conn.execute(sa.text(
                    "SELECT id, created_at, kind, pubkey, tags, sig, content FROM events"))
                for row in res:
                    tags = row[4]
                    if isinstance(tags, str):
                        tags = json.loads(tags)
                    out[row[0].hex()] = {
                        "id": row[0].hex(), "created_at": row[1], "kind": row[2],
                        "pubkey": row[3].hex(), "tags": tags, "sig": row[5].hex(),
                        "content": row[6]}
            return out
        else:
            from msgpack import unpackb

            out = {}
            for k, v in self.kv_items():
                if k[:1] == b"\x00":
                    d = unpackb(v, use_list=True)
                    out[d[1].hex()] = {
                        "id": d[1].hex(), "created_at": d[2], "kind": d[3],
                        "pubkey": d[4].hex(), "content": d[5], "tags": d[6],
                        "sig": d[7].hex()}
            return out

    async def dump_tags(self):
        """SQL only: set of (idhex, name, value) rows of the tags table."""
        async with self.storage.db.connect() as conn:
            import sqlalchemy as sa

            res = await conn.execute(sa.text("SELECT id, name, value FROM tags"))
            return sorted((r[0].hex(), r[1], r[2]) for r in res)

    def kv_items(self):
        """Full forward walk of the LMDB keyspace: list of (key, value) bytes."""
        with self.storage.db.begin() as txn:
            c = txn.cursor()
            out = []
            if c.first():
                for k, v in c.iternext():
                    out.append((bytes(k), bytes(v)))
            return out

    async def hold_query_slots(self):
        """SQL: take every free query slot (as long-running queries of other clients would): stored queries started from
        now on stay 'in flight' until release_query_slots()"""
        if self.backend != "sql" or self.storage is None:
            return False
        sem = self.storage.query_slot
        took = False
        while not sem.locked():
            await sem.acquire()
            self._held_slots = getattr(self, "_held_slots", 0) + 1
            took = True
        return took

    def release_query_slots(self):
        n = getattr(self, "_held_slots", 0)
        self._held_slots = 0
        if self.storage is not None and self.backend == "sql":
            for _ in range(n):
                self.storage.query_slot.release()
        return n > 0

    def conn(self, addr="10.1.2.3", rate_limiter=None):
        c = Conn(self, addr, rate_limiter)
        self.conns.append(c)
        return c


def ev_to_dict(e):
    return {
        "id": e.id, "pubkey": e.pubkey, "created_at": e.created_at, "kind": e.kind,
        "tags": tolist(e.tags), "content": e.content, "sig": e.sig,
    }


def tolist(x):
    if isinstance(x, (list, tuple)):
        return [tolist(i) for i in x]
    return x


# ------------------------------------------------------------------ connections


class SpyLog:
    """Logger stand-in that counts exception() calls of the handler."""

    def __init__(self):
        self.exceptions = []

    def exception(self, msg, *a, **kw):
        import sys
        import traceback

        tb = traceback.format_exc()
        if "injected by the harness" in tb:
            return   # the relay logging a fault the harness itself injected is what it should do
        self.exceptions.append((msg, tb))

    def __getattr__(self, name):
        return lambda *a, **kw: None


class Conn:
    """One simulated websocket connection driven through the real start_client."""

    def __init__(self, rig, addr, rate_limiter=None):
        self.rig = rig
        self.addr = addr
        self.inbox = collections.deque()
        self.wake = asyncio.Event()
        self.out = []  # raw strings passed to ws_send
        self.closed = None
        self.in_recv = False
        self.send_turns = 0
        self.fail_sends = 0   # the next n ws_send calls raise a transient (non-disconnect) error: the frame is lost
        self.stalled = False  # the peer stopped reading: ws_send blocks until unstall()
        self.unstalled = asyncio.Event()
        self.n_fed = 0     # messages queued by the harness
        self.n_taken = 0   # messages handed to the handler
        self.n_done = 0    # messages the handler has finished with (it asked for the next one)
        self.log = SpyLog()
        self.disconnected = False
        self.task = asyncio.get_running_loop().create_task(
            web.start_client(
                rig.storage, self._send, self._recv, self._close, self.log,
                message_timeout=10**14,
                rate_limiter=rate_limiter or NullRateLimiter(),
                remote_addr=addr,
            )
        )

    async def _send(self, m):
        if self.disconnected:
            raise falcon.WebSocketDisconnected()
        if self.fail_sends > 0:
            self.fail_sends -= 1
            raise OSError("transient send error (injected by the harness)")
        while self.stalled:
            self.unstalled.clear()
            await self.unstalled.wait()
            if self.disconnected:
                raise falcon.WebSocketDisconnected()
        for _ in range(self.send_turns):  # a slow reader: each frame takes some event-loop turns to go out
            await asyncio.sleep(0)
            if self.disconnected:
                raise falcon.WebSocketDisconnected()
        self.out.append(m)

    async def _recv(self):
        self.in_recv = True
        self.n_done = self.n_taken
        try:
            while not self.inbox:
                self.wake.clear()
                await self.wake.wait()
            m, turns = self.inbox.popleft()
            # a frame arrives some event-loop turns after the previous one was consumed
            for _ in range(turns):
                await asyncio.sleep(0)
        finally:
            self.in_recv = False
        self.n_taken += 1
        if m is None:
            self.disconnected = True
            raise falcon.WebSocketDisconnected()
        return m

    async def _close(self, code=1000):
        self.closed = code

    def stall(self, on=True):
        self.stalled = on
        if not on:
            self.unstalled.set()

    def feed(self, msg, turns=1):
        """queue a message (object -> JSON text; str sent raw; None = disconnect); `turns` event-loop
        turns pass between the handler asking for the next frame and getting this one"""
        if msg is not None and not isinstance(msg, str):
            msg = json.dumps(msg, ensure_ascii=False)
        self.inbox.append((msg, turns))
        self.n_fed += 1
        self.wake.set()

    async def send(self, msg, settle_after=True):
        """feed + settle; returns the frames (raw strings) produced meanwhile"""
        n = len(self.out)
        self.feed(msg)
        if settle_after:
            await settle(self.rig)
        return self.out[n:]

    async def disconnect(self):
        self.feed(None)
        await settle(self.rig)
        if not self.task.done():
            raise HarnessError("handler did not finish after disconnect")

    def frames(self, start=0):
        """parsed frames; a frame that is not JSON (or not a non-empty array) becomes ["<INVALID-FRAME>", raw]"""
        out = []
        for m in self.out[start:]:
            try:
                f = json.loads(m)
                if not (isinstance(f, list) and f):
                    raise ValueError("not an array")
            except ValueError:
                f = ["<INVALID-FRAME>", m[:300]]
            out.append(f)
        return out

    def idle(self):
        """every fed message has been completely handled"""
        return self.task.done() or (self.in_recv and not self.inbox and self.n_done == self.n_fed)


# ------------------------------------------------------------------ settle

def _chain(task):
    """(name, filename) of every coroutine / async-generator frame the task is suspended in, outermost first"""
    import inspect

    coro = task.get_coro()
    out = []
    for _ in range(200):
        code = (getattr(coro, "cr_code", None) or getattr(coro, "gi_code", None)
                or getattr(coro, "ag_code", None))
        if code is None:
            break
        out.append((code.co_name, code.co_filename))
        nxt = getattr(coro, "cr_await", None)
        if nxt is None:
            nxt = getattr(coro, "gi_yieldfrom", None)
        if nxt is None:
            nxt = getattr(coro, "ag_await", None)
        if nxt is not None and not any(hasattr(nxt, a) for a in ("cr_code", "gi_code", "ag_code")):
            # awaiting asend() of an async generator: find that generator among the frame locals
            frame = (getattr(coro, "cr_frame", None) or getattr(coro, "gi_frame", None)
                     or getattr(coro, "ag_frame", None))
            found = None
            if frame is not None:
                for v in list(frame.f_locals.values()):
                    if inspect.isasyncgen(v) and v.ag_await is not None:
                        found = v
                        break
            nxt = found
        if nxt is None:
            break
        coro = nxt
    return out


async def settle(rig, pump=True, budget=20000):
    """Run until quiescent: all handlers blocked in recv with empty inboxes, no
    relay task runnable or waiting on a thread, writer queue applied (if pump)."""
    loop = asyncio.get_running_loop()
    me = asyncio.current_task()
    periodic = set(Periodic._running_tasks)
    spins = 0
    stable = 0
    t_real = _time.monotonic()
    while True:
        spins += 1
        if spins > budget or _time.monotonic() - t_real > 180:
            raise HarnessError("settle(): no quiescence within budget")
        await asyncio.sleep(0)
        if pump and rig.backend == "kv" and rig.storage is not None and rig.pending_writes():
            rig.pump()
            stable = 0
            continue
        busy = False
        sleeping = False
        lockwait = []
        for t in asyncio.all_tasks(loop):
            if t is me or t.done() or t in periodic:
                continue
            chain = _chain(t)
            name, fn = chain[-1] if chain else ("?", "?")
            if ("_recv", __file__) in chain:
                for cc in rig.conns:
                    if cc.task is t and cc.inbox:
                        busy = True
                continue
            if name == "get" and fn.endswith("queues.py"):
                continue  # sender task waiting for its subscription queue
            if name == "wait" and ("_send", __file__) in chain and any(cc.stalled for cc in rig.conns):
                continue  # sender task of a connection whose peer does not read
            if name == "_wait_for_data" and fn.endswith("streams.py"):
                continue  # a StreamReader the harness feeds (notifier links): waiting for bytes is being idle
            if name == "sleep" and fn.endswith("tasks.py"):
                sleeping = True
                continue
            if ((name in ("acquire", "wait") and fn.endswith("locks.py")) or (name == "put" and fn.endswith("queues.py"))
                    or (name == "_wait" and fn.endswith("tasks.py"))):
                # waiting for a semaphore/lock somebody else must release, or for room in a bounded queue somebody
                # else must drain, or (asyncio.wait) for tasks that are themselves stuck that way: if nothing else can
                # run any more this wait never ends
                lockwait.append(chain)
                continue
            busy = True
        if busy or loop._ready:
            stable = 0
            if busy and rig.backend == "sql":
                _time.sleep(0.0005)  # let aiosqlite's thread make progress
                spins -= 1           # waiting for the database thread is bounded by wall-clock time, not by the spin budget
            continue
        if sleeping:
            loop.jump_to_next_timer()
            stable = 0
            continue
        stable += 1
        if lockwait and rig.backend == "sql":
            _time.sleep(0.0005)  # what looks like a lock wait may be waiting for a database thread: give it time, not spin
        if stable >= (50 if lockwait else 3):
            # tasks still waiting for a lock while nothing else can run: a leaked lock/semaphore
            rig.stuck = [[n for n, _ in ch][-4:] for ch in lockwait]
            return


async def send_while_workers_busy(rig, conn, msg, delay):
    """feed `msg`; every job it hands to the worker-thread pool (validation) waits while `delay` seconds of loop time
    pass, then runs; returns the frames the connection received meanwhile (raw strings)"""
    loop = asyncio.get_running_loop()
    vexec = loop.inline_executor
    vexec.park = True
    n0 = len(conn.out)
    conn.feed(msg)
    for _ in range(8):
        await asyncio.sleep(0)
    loop._voffset += delay
    for _ in range(8):
        await asyncio.sleep(0)
    vexec.park = False
    vexec.release_all()
    await settle(rig)
    return conn.out[n0:]


def sqlite_dump(path):
    """Open a SQLite file with the stdlib module and dump events and tags."""
    con = sqlite3.connect(path)
    try:
        ev = {}
        for r in con.execute("SELECT id, created_at, kind, pubkey, tags, sig, content FROM events"):
            ev[bytes(r[0]).hex()] = {
                "id": bytes(r[0]).hex(), "created_at": r[1], "kind": r[2],
                "pubkey": bytes(r[3]).hex(), "tags": json.loads(r[4]) if isinstance(r[4], str) else r[4],
                "sig": bytes(r[5]).hex(), "content": r[6]}
        tags = sorted((bytes(r[0]).hex(), r[1], r[2]) for r in con.execute("SELECT id, name, value FROM tags"))
        return ev, tags
    finally:
        con.close()
