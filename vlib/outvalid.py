"""Output validators for C14, referenced by dotted path as the relay's config expects."""
MODE = {"kind": "all"}   # set by the check before the storage is opened


def check(event, context):
    m = MODE
    if m["kind"] == "all":
        return True
    if m["kind"] == "none":
        return False
    if m["kind"] == "hide-pubkeys":
        return event.pubkey not in m["pubkeys"]
    if m["kind"] == "hide-kinds":
        return event.kind not in m["kinds"]
    if m["kind"] == "privileged":
        # authenticated privileged pubkeys see everything, others only non-hidden pubkeys
        token = context.get("auth_token") or {}
        return token.get("pubkey") in m["privileged"] or event.pubkey not in m["pubkeys"]
    return True
