"""
Child process for the C03 'bulk-load' sub-check: runs the real `nostr-relay -c <conf> load <dump>` click command
against a fresh sqlite file (tables created first, as `nostr-relay` deployments do through alembic).
usage: python -m vlib.loadchild <conf.yaml> <dump.jsonl>     exit 0 = the command ran, 3 = it raised
"""
import os
import sys
import traceback

VERIF = os.path.dirname(os.path.dirname(os.path.abspath(__file__)))
REPO = os.environ.get("VERIF_REPO", "/repo")
sys.dont_write_bytecode = True
sys.path.insert(0, os.path.join(VERIF, "shims"))
sys.path.insert(0, REPO)


def main():
    conf, dump = sys.argv[1:3]
    from click.testing import CliRunner
    from nostr_relay.config import Config

    Config.load(conf)
    import sqlalchemy as sa
    from nostr_relay.storage import get_metadata

    engine = sa.create_engine(Config.storage["sqlalchemy.url"].replace("+aiosqlite", ""))
    get_metadata().create_all(engine)
    engine.dispose()
    from nostr_relay.cli import main as cli_main

    result = CliRunner().invoke(cli_main, ["-c", conf, "load", dump])
    if result.exception and not isinstance(result.exception, SystemExit):
        traceback.print_exception(result.exception)
        return 3
    return 0


if __name__ == "__main__":
    rc = main()
    sys.stdout.flush()
    os._exit(rc)
