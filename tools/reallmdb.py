"""minimal ctypes binding to liblmdb for validating the shim (scratch)"""
import ctypes as C, os
lib = C.CDLL("/root/miniconda/lib/liblmdb.so")
class Val(C.Structure):
    _fields_=[("mv_size", C.c_size_t), ("mv_data", C.c_void_p)]
P = C.c_void_p
lib.mdb_strerror.restype = C.c_char_p
(MDB_FIRST, MDB_GET_CURRENT, MDB_LAST, MDB_NEXT, MDB_PREV, MDB_SET, MDB_SET_KEY, MDB_SET_RANGE) = (0, 4, 6, 8, 12, 15, 16, 17)
MDB_NOTFOUND=-30798
class Err(Exception): pass
def chk(rc, what):
    if rc: raise Err(what+": "+lib.mdb_strerror(rc).decode())
def mkval(b):
    v = Val(); buf = C.create_string_buffer(b, len(b)); v.mv_size=len(b); v.mv_data=C.cast(buf, C.c_void_p); v._buf=buf; return v
def getval(v): return C.string_at(v.mv_data, v.mv_size)
class Env:
    def __init__(self, path, map_size=10485760):
        os.makedirs(path, exist_ok=True)
        self.env = P(); chk(lib.mdb_env_create(C.byref(self.env)), "create")
        chk(lib.mdb_env_set_mapsize(self.env, C.c_size_t(map_size)), "mapsize")
        chk(lib.mdb_env_open(self.env, path.encode(), 0, 0o644), "open")
        t = self.begin(True); self.dbi = C.c_uint(); chk(lib.mdb_dbi_open(t.txn, None, 0, C.byref(self.dbi)), "dbi"); t.commit()
    def begin(self, write=False): return Txn(self, write)
    def maxkey(self): return lib.mdb_env_get_maxkeysize(self.env)
    def close(self): lib.mdb_env_close(self.env)
class Txn:
    def __init__(self, env, write):
        self.e=env; self.txn=P(); chk(lib.mdb_txn_begin(env.env, None, 0 if write else 0x20000, C.byref(self.txn)), "begin")
    def put(self,k,v): 
        kk, vv = mkval(k), mkval(v); chk(lib.mdb_put(self.txn, self.e.dbi, C.byref(kk), C.byref(vv), 0), "mdb_put"); return True
    def get(self,k):
        kk=mkval(k); vv=Val(); rc=lib.mdb_get(self.txn, self.e.dbi, C.byref(kk), C.byref(vv))
        if rc==MDB_NOTFOUND: return None
        chk(rc,"mdb_get"); return getval(vv)
    def delete(self,k):
        kk=mkval(k); rc=lib.mdb_del(self.txn, self.e.dbi, C.byref(kk), None)
        if rc==MDB_NOTFOUND: return False
        chk(rc,"mdb_del"); return True
    def cursor(self): return Cur(self)
    def commit(self): chk(lib.mdb_txn_commit(self.txn),"commit")
    def abort(self): lib.mdb_txn_abort(self.txn)
class Cur:
    def __init__(self, t):
        self.c=P(); chk(lib.mdb_cursor_open(t.txn, t.e.dbi, C.byref(self.c)),"cursor"); self.k=None
    def _get(self, op, key=None):
        kk = mkval(key) if key is not None else Val(); vv=Val()
        rc = lib.mdb_cursor_get(self.c, C.byref(kk), C.byref(vv), op)
        if rc==MDB_NOTFOUND: self.k=None; return False
        chk(rc,"cursor_get"); self.k=getval(kk); return True
    def set_range(self,k): return self._get(MDB_SET_RANGE,k)
    def prev(self): return self._get(MDB_PREV)
    def next(self): return self._get(MDB_NEXT)
    def first(self): return self._get(MDB_FIRST)
    def last(self): return self._get(MDB_LAST)
    def key(self): return self.k if self.k is not None else b""
    def close(self): lib.mdb_cursor_close(self.c)
