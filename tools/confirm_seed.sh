#!/bin/sh
# usage: tools/confirm_seed.sh <seed-id> <srcdir with patch.diff demo.py notes.md> <property> "<needs>" "<caught-by>"
# Confirms in a scratch worktree of /repo HEAD: demo passes clean, fails mutated, pinned suite unchanged.
ID="$1"; SRC="$2"; PROP="$3"; NEEDS="$4"; CAUGHT="$5"
WT=/tmp/confirm_$ID
git -C /repo worktree remove --force $WT 2>/dev/null
git -C /repo worktree add --detach $WT HEAD >/dev/null 2>&1 || exit 3
cd $WT
PYTHONPATH=$WT:/tmp/pyshims timeout 300 /venv/bin/python $SRC/demo.py >/tmp/confirm_clean.log 2>&1; RC_CLEAN=$?
git apply $SRC/patch.diff || { echo "patch does not apply to HEAD"; git -C /repo worktree remove --force $WT; exit 3; }
PYTHONPATH=$WT:/tmp/pyshims timeout 300 /venv/bin/python $SRC/demo.py >/tmp/confirm_mut.log 2>&1; RC_MUT=$?
VERIF_REPO=$WT /venv/bin/python /verif/tools/baseline.py > /tmp/confirm_tests.log 2>&1; RC_T=$?
HEAD=$(git -C /repo rev-parse --short HEAD)
cd /verif
git -C /repo worktree remove --force $WT
echo "$ID: demo clean rc=$RC_CLEAN mutated rc=$RC_MUT suite rc=$RC_T ($(tail -1 /tmp/confirm_tests.log))"
if [ $RC_CLEAN -eq 0 ] && [ $RC_MUT -ne 0 ] && [ $RC_T -eq 0 ]; then
  mkdir -p seeded/$ID && cp $SRC/patch.diff $SRC/demo.py seeded/$ID/ && cp $SRC/notes.md seeded/$ID/notes.md 2>/dev/null
  /venv/bin/python - "$ID" "$PROP" "$NEEDS" "$CAUGHT" "$HEAD" "$RC_CLEAN" "$RC_MUT" <<'PY'
import json, sys
i, prop, needs, caught, head, rc0, rc1 = sys.argv[1:8]
json.dump({"id": i, "property": prop, "needs_to_manifest": needs,
           "confirmed": {"repo_commit": head, "demo_rc_clean": int(rc0), "demo_rc_mutated": int(rc1),
                         "pinned_suite": "all 36 stable tests pass with the patch applied (tools/baseline.py)",
                         "how": "tools/confirm_seed.sh in a scratch worktree of /repo HEAD, removed afterwards"},
           "caught_by": caught}, open("/verif/seeded/%s/meta.json" % i, "w"), indent=1)
PY
  echo "kept seeded/$ID"
else
  echo "NOT kept"; tail -5 /tmp/confirm_clean.log /tmp/confirm_mut.log
fi
