#!/venv/bin/python
"""Regenerates the generated tables of DESIGN.md (between the GENERATED markers) from known_findings.json and seeded/*/meta.json."""
import glob, json, os, re
V = os.path.dirname(os.path.dirname(os.path.abspath(__file__)))
kf = json.load(open(os.path.join(V, "known_findings.json")))["findings"]
out = []
out.append("### Findings (from known_findings.json)\n")
out.append("| id | property | status | commit | what | replay |")
out.append("|---|---|---|---|---|---|")
for f in sorted(kf, key=lambda f: (f["property"], f["id"])):
    what = re.sub(r"^fixed: property=\S+ \S+ ", "", f["what"]).replace("|", "\\|")
    out.append("| %s | %s | %s | %s | %s | %s |" % (f["id"], f["property"], f["status"], f.get("commit", ""), what,
                                                 ("`%s`" % f["replay"]) if f.get("replay") else ""))
out.append("")
out.append("### Seeded changes (from seeded/*/meta.json): which check catches which change\n")
out.append("| seed | property | needs to manifest | caught by |")
out.append("|---|---|---|---|")
for p in sorted(glob.glob(os.path.join(V, "seeded", "*", "meta.json"))):
    m = json.load(open(p))
    out.append("| %s | %s | %s | %s |" % (m["id"], m["property"], m["needs_to_manifest"].replace("|", "\\|"),
                                       m["caught_by"].replace("|", "\\|")))
out.append("")
out.append("### Sub-checks and measured coverage (from evidence/*.json of the last run)\n")
out.append("| property | level | tier | sub-check (mode) | evaluations | distinct non-trivial | shard wall s |")
out.append("|---|---|---|---|---|---|---|")
for p in sorted(glob.glob(os.path.join(V, "evidence", "C*.json"))):
    e = json.load(open(p))
    for name, sc in sorted(e["coverage"].get("subchecks", {}).items()):
        out.append("| %s | %s | %s | %s (%s%s) | %d | %d | %s |" % (
            e["property_id"], e["level"], e["tier"], name, sc["mode"], ", exhaustive" if sc.get("exhaustive") else "",
            sc["evaluations"], sc["distinct_nontrivial"], sc.get("max_shard_wall_s", "")))
text = "\n".join(out) + "\n"
p = os.path.join(V, "DESIGN.md")
s = open(p).read()
a, b = "<!-- BEGIN GENERATED TABLES -->", "<!-- END GENERATED TABLES -->"
if a in s and b in s:
    s = s[: s.index(a) + len(a)] + "\n" + text + s[s.index(b):]
    open(p, "w").write(s)
    print("tables updated: %d findings, %d seeds" % (len(kf), len(glob.glob(os.path.join(V, "seeded", "*", "meta.json")))))
else:
    print("markers not found")
