#!/bin/sh
# usage: tools/run_some.sh <tier> C01 C02 ...   (one line per check)
TIER="$1"; shift
cd "$(dirname "$0")/.."
mkdir -p out
for c in "$@"; do
  s=$(date +%s)
  ./check $c --tier $TIER > out/all_$c.log 2>&1; rc=$?
  echo "$c rc=$rc $(( $(date +%s) - s ))s $(grep -E '^C[0-9]+ tier' out/all_$c.log | cut -c1-120)"
  grep -E '^(VIOLATION|HARNESS-ERROR)' out/all_$c.log | head -3
done
