#!/venv/bin/python
"""Regenerates MANIFEST.json from the table below (claimed checks) and properties.jsonl."""
import json, os
V = os.path.dirname(os.path.dirname(os.path.abspath(__file__)))
props = [json.loads(l) for l in open(os.path.join(V, "properties.jsonl"))]

CLAIMS = {
 "C10": dict(cat="exploration",
   text="Generated histories (add/delete/replace/NIP-09/GC/reopen/injected engine error and kill) on the real kv.py; after every step the whole keyspace is compared with index keys regenerated from the primary records by an independent encoder, and every record is looked up through every access path.",
   note="py-lmdb replaced by a validated pure-Python model of the engine; writer/query threads run synchronously.",
   tech="property-based testing: Hypothesis operation histories + keyspace-walk invariant + access-path differential"),
 "C02": dict(cat="exploration",
   text="Adjacency-built stores x well-formed filters (Hypothesis) on both backends through the REQ path against a reference matcher with a MUST/MAY split; every eligible LMDB index forced through hand-built plans; exhaustive small scope (all stores of <=2/3 events over a 36-event alphabet x all 1727 filters).",
   note="SQLite only (no PostgreSQL); LMDB engine modelled; filters outside the documented domain (no condition, >5 filters) excluded; events on a since/until bound are MAY.",
   tech="property-based testing: model-based oracle (reference NIP-01 matcher), forced-plan differential, bounded-exhaustive enumeration"),
 "C01": dict(cat="exploration",
   text="Histories with replacements and deletions x hostile filter lists (every JSON type at every position, SQL/Python metacharacters, NUL, unicode tag names, near-miss values) through subscribe, run_single_query and the websocket handler on both backends: every returned object must be a stored event, field-for-field, that may-match a filter as written; metamorphic statement-skeleton invariance (SQL token skeleton / LMDB predicate AST of a hostile filter equals that of its benign twin).",
   note="Malformed conditions may be ignored, coerced or rejected (only well-formed conditions constrain the answer); SQLite only; LMDB engine modelled.",
   tech="property-based testing / grammar fuzzing with a reference matcher oracle and a metamorphic (benign-twin) oracle"),
 "C11": dict(cat="exploration",
   text="Metamorphic relations on generated (store, filter) pairs, both backends: constructed non-matching neighbour events (adjacent kinds/ids/pubkeys, prefix/extension tag values, timestamps just outside the window) inserted then removed leave the answer unchanged; strengthening never adds; multi-value answer equals union of single values; permutation/duplication invariant. Adjacency of a neighbour to a matching key is measured in the LMDB keyspace.",
   note="Events exactly on a since/until bound are excluded from comparisons; no truncating limit; SQLite only; LMDB engine modelled.",
   tech="property-based testing: metamorphic relations (paired runs)"),
 "C12": dict(cat="exploration",
   text="max_limit=7; generated stores with more/equal/fewer matches than limits {0,1,2,6,7,8,1e6,null,absent}, 1-3 filters per REQ, both backends through the REQ path; per-filter count bound (events attributable to one filter only), total bound, no truncation under the limit, recency (no omitted matching event newer than a sent one).",
   note="Ties in created_at at the cut accepted either way; frame order unconstrained; SQLite only; LMDB engine modelled.",
   tech="property-based testing with a reference matcher and limit/recency oracle"),
 "C06": dict(cat="exploration",
   text="Websocket-level histories of valid/invalid/duplicate/replaceable/deleting/ephemeral submissions (real signatures, long tags, integers up to 2^64) with a watcher connection, both backends, observed after writers are idle: exactly one OK per EVENT; OK true => stored, ephemeral+broadcast or superseded; authentic well-formed in-range events are accepted; OK false and duplicates leave the raw dump (events, tag rows, whole LMDB keyspace) unchanged and are not broadcast.",
   note="Must-accept range stated in evidence assumptions (created_at < 2^31, kind <= 65535, tag strings <= 300 chars); outside it any consistent outcome is accepted. LMDB writer pumped synchronously.",
   tech="property-based testing: stateful histories with a raw-dump before/after oracle and an independent authenticity verifier"),
 "C08": dict(cat="exploration",
   text="Histories over 3 authors of regular events and kind-5 deletions with own/foreign/unknown/duplicate/upper-case/short/non-hex/bare e tags in any order, both backends; per step raw-dump diff: removed subset-of (referenced and same author), superset-of (referenced, same author, strictly older); removed events served by no query nor get_event.",
   note="Free mode (validators: []); same-timestamp/newer targets and deletion-before-target are unconstrained.",
   tech="property-based testing: stateful histories with a frame-condition oracle over raw dumps"),
 "C09": dict(cat="exploration",
   text="Arrival histories over 2 authors x replaceable/regular kinds x d-values {absent,bare,'',a,ab,abc,unicode} x timestamp grid incl. duplicates, both backends, raw-dump diff after every step (older versions of the address gone; nothing of another address, no regular event, no newer version removed; newest of every address kept); exhaustive pass over every arrival order of every 3/4-event multiset in a 2-address universe.",
   note="Free mode; equal timestamps may be resolved either way.",
   tech="property-based testing: stateful histories + bounded-exhaustive arrival orders, store-model oracle"),
 "C17": dict(cat="exploration",
   text="Generated stores of boundary kinds and expiration values around an injected clock (T-1,T,T+1, 9/10/11 digits, malformed spellings, integer-typed, two tags), one pass of each backend's own collector: MUST-go / MUST-stay / MAY verdicts from an independent reading of NIP-40, index hygiene (LMDB keyspace walk, SQL orphan tag rows), ephemeral pushed live and not queryable afterwards.",
   note="Clock injected via module-level time(); LMDB never stores ephemeral events so their removal is exercised on SQL only.",
   tech="property-based testing with a reference verdict function and raw-dump oracle"),
 "C18": dict(cat="exploration",
   text="The real RateLimiter under an injected clock: exhaustive small scope (25 rule configurations x every arrival sequence of length <=4/6 over a 6-point time grid x 2 addresses), random long runs (20-400 arrivals, sustained traffic, IPv4+IPv6, 1-3 rules per command) and a rule-string grammar vs reference parse. Oracles over the limiter's own decisions: window safety, no over-blocking, exact-address override, -1 exemption, bounded per-scope history, idle addresses dropped on cleanup.",
   note="Clock injected via RateLimiter._timestamp; dyadic time steps. One open known finding (F27: global scope counts messages the ip scope then refuses) is pinned by the repository's own test and tolerated by a narrow classifier.",
   tech="property-based testing + bounded-exhaustive enumeration with invariant oracles over the admission history"),
 "C20": dict(cat="exploration",
   text="Real NotifyServer.handle_notify and NotifyClient.connect/notify wired through harness-owned streams (real asyncio.StreamReader, recording writers); Hypothesis draws worker count, announcement sequences and the chunking of every byte stream (splits inside/across ids, coalescing, interleaved senders, peer closing mid-id). Oracle: ids looked up at each receiver == ids completely transmitted by the other workers, intact, once, per-sender order, no echo; one local fan-out per existing event.",
   note="TCP modelled as reliable ordered byte streams; storage side faked (get_event / notify_all_connected recorded).",
   tech="property-based testing with harness-owned transport schedule (chunking) and multiset/order oracle"),
 "C04": dict(cat="exploration",
   text="Subscription ids from st.text() and non-string JSON values: every frame passed to ws_send parses strictly and has one of the five shapes with the client's id; accepted events with arbitrary Unicode content and tag structures (numbers, booleans, null, nested arrays where accepted) served stored (REQ), live (watcher) and over HTTP /e/<id> (ASGI conductor) on both storage encodings must equal the accepted event field-for-field (types included) and verify; differential of the hand-written serializer against the generic one.",
   note="Events are signed over aionostr's serialization (admission is C03's subject); lone surrogates excluded.",
   tech="property-based testing: round-trip and serializer-differential oracles"),
 "C13": dict(cat="exploration",
   text="Protocol model of a connection checked (a) exhaustively over every sequence up to depth 4/5 of a 13-message alphabet (REQ with valid/empty/invalid/partly invalid filters, replacement, over-limit, non-string id, CLOSE, matching EVENTs) with subscription_limit=3, and (b) on random deeper two-connection schedules with recv latency, parked/released query jobs and REQ+CLOSE / REQ+REQ bursts; silence is detected as a task left waiting on a lock nobody holds.",
   note="LMDB deterministic mode; SQL on a file database with real aiosqlite threads (interleavings inside one DB call not owned by the harness).",
   tech="bounded-exhaustive enumeration + property-based schedules against a protocol state-machine model"),
 "C19": dict(cat="exploration",
   text="Typed-mutation grammar fuzzing of the connection handler (every JSON type at every position of commands, events and filters; dropped/duplicated/reordered elements; invalid JSON; 1e5-deep nesting; 1 MB strings; impatient REQ/CLOSE bursts; rate limiting and auth on/off) with probes on the hostile connection and on a bystander: no exception escapes, kept-open connections still answer, bystanders unaffected, after disconnect no subscriptions/tasks/locks are left.",
   note="Virtual clock (throttling only advances time); any relay-initiated close counts as clean handling.",
   tech="grammar-based fuzzing (Hypothesis) with liveness probes and resource-leak oracle"),
 "C03": dict(cat="exploration",
   text="Valid signed events (all kind classes, with/without a real NIP-26 delegation) corrupted by 1-3 mutations from a 30-entry typed catalogue (forged/transplanted/upper-case ids, signature and pubkey corruption, content/kind/timestamp/tag changes under the old id, type confusion, extra/missing keys, delegation arity/forgery/transplant/conditions) on the websocket and direct admission paths of both backends with a watcher; plus add_service_event. An independent verifier decides: everything stored or pushed must be authentic and equal the submission, refused events leave no trace, authentic events are accepted.",
   note="Harness canonical serializer cross-checked against aionostr on unmutated events; the three known renderings of control characters all count as 'the hash'.",
   tech="property-based testing: typed mutation catalogue + independent verifier oracle (BIP-340 via coincurve)"),
 "C05": dict(cat="exploration",
   text="Generated schedules over up to 4 connections (REQ, replacing REQ, CLOSE, valid/invalid/duplicate/ephemeral EVENT, disconnect) interleaved with harness-owned scheduling (recv latency, parked/released validator jobs, k applied LMDB writes, yields, settles); every frame is stamped with the operation index at which it appeared; per (connection, sub id, event) a MUST lower bound (instance certainly open over the whole accept interval and must-matching) and an AT-MOST upper bound derived from open/closed/overlap windows; refused events reach nobody; live==stored agreement for instances open at the end.",
   note="LMDB fully deterministic (no threads); SQL keeps aiosqlite threads so only message-level interleavings are owned; boundary (since/until) and ephemeral cases are MAY.",
   tech="property-based testing: schedule generation with a window-based MUST/AT-MOST oracle (happens-before over observed frames)"),
 "C07": dict(cat="fault_enumeration",
   text="For Hypothesis-drawn histories of multi-effect events (parameterized-replaceable supersession with several indexed tags, kind 0/3, kind-5 deleting several events) EVERY (event, k-th storage mutation) point is faulted on both backends: an injected engine error (SQL: OperationalError from a before_cursor_execute listener; LMDB: lmdb.Error from the engine model) must leave exactly the pre-state, a negative answer and no broadcast (SQL), and the remaining events must then produce the dumps of the history without the failed event; a kill (BaseException out of the writer + reopen for LMDB; engine dropped + file reopened with sqlite3 for SQL; real child processes killed with os._exit on a WAL file for a stratified sample / all points) must leave the pre- or post-state, compared below the relay (events + tag rows / whole keyspace).",
   note="LMDB commit atomicity is assumed (engine modelled): the LMDB verdict is 'all effects of one event are inside one write transaction'. SQLite is exercised for real. PostgreSQL not exercised.",
   tech="fault injection enumerated over every mutation point of generated histories (property-based histories + exhaustive crash points) with before/after raw-dump oracle"),
 "C14": dict(cat="exploration",
   text="Exhaustive matrix over the role alphabet {a,r,w}: 8x8 save/query configurations x 9 identities (unauthenticated + every role subset, established through a real NIP-42 AUTH with roles stored by set_auth_roles) x {save, query} x {websocket, direct storage call} x both backends (4608 evaluations): allowed <=> role sets intersect; refused => 'restricted', raw dump unchanged, nothing served or delivered later. Generated output-validator family (hide by pubkey/kind/all/none/privileged viewers) over EVENT/REQ sequences: no hidden event in any stored or live frame. Role storage sequences read back the last assignment.",
   note="Identities via the real AUTH handshake; SQLite only; LMDB engine modelled.",
   tech="bounded-exhaustive enumeration of the authorization matrix + property-based sequences with decision-table oracle"),
 "C15": dict(cat="exploration",
   text="Sequences of 1-4 AUTH attempts by two identities built from the connection's real challenge and mutated from a 36-entry catalogue (kind, signature, signer, challenge of another live / closed connection / truncated / case / missing / duplicated, relay tag absent / duplicated / substring / host-only / empty / superstring / scheme / port / bare / case / second configured URL, extra tags, created_at at and around both 600 s bounds, non-object payloads, forged id), with relay_urls configured as a list and left at its default; the identity in force is observed through token-dependent behaviour (save needs key A's role, query needs key B's) against MUST/MUST-NOT/MAY verdicts; challenge format, distinctness over 20000 connections and across fresh processes.",
   note="Unpredictability itself is not decidable by testing (format/distinctness/independence only). Clock injected via auth.time.",
   tech="property-based testing: typed mutation catalogue + behavioural identity oracle"),
}
NA_REASON = "check under construction in this session; will be claimed when it is quiet and sensitive"

man = {
 "version": 1,
 "setup_cmd": "/venv/bin/python -c 'import hypothesis' 2>/dev/null || /venv/bin/pip install --no-index --find-links /opt/veriftools/wheels hypothesis; mkdir -p out evidence",
 "hooks": {"guard": "NOSTR_RELAY_VERIF",
           "enable": "no source hooks: checks import /repo's working tree directly and instrument from outside (module-level clocks, executors, SQLAlchemy events); the variable is set by the harness but read by nothing in /repo",
           "baseline_off_cmd": "/venv/bin/python /verif/tools/baseline.py", "source_commits": [], "add_only": True},
 "engines": [{"name": "hypothesis-runner", "path": "vlib/runner.py", "serves_properties": sorted(CLAIMS),
              "kind_free_text": "sharded Hypothesis / enumeration driver with explicit oracles, known-findings classifier, JSON replay"}],
 "checks": [], "not_applicable": [],
 "notes": "Genuine defects found are in known_findings.json (open = tolerated by a narrow classifier armed only while its replay still fails; fixed = repaired by a 'fix:' commit in /repo, replay kept as regression).",
}
for p in props:
    i = p["id"]
    if i in CLAIMS:
        c = CLAIMS[i]
        man["checks"].append({
            "property_id": i, "quick_cmd": "./check %s --tier quick" % i, "thorough_cmd": "./check %s --tier thorough" % i,
            "evidence_file": "evidence/%s.json" % i, "replay_cmd_template": "./check %s --replay {path}" % i,
            "engine": "hypothesis-runner",
            "level_claimed": {"category": c["cat"], "text": c["text"], "design_ref": "DESIGN.md section 5, %s" % i},
            "level_note": c["note"], "technique": c["tech"]})
    else:
        man["not_applicable"].append({"property_id": i, "reason": NA_REASON})
json.dump(man, open(os.path.join(V, "MANIFEST.json"), "w"), indent=1)
print("claimed:", sorted(CLAIMS))
