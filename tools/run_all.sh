#!/bin/sh
# usage: tools/run_all.sh quick|thorough  -> runs every claimed check once, prints one line per check
TIER="${1:-quick}"
cd "$(dirname "$0")/.."
for c in C01 C02 C03 C04 C05 C06 C07 C08 C09 C10 C11 C12 C13 C14 C15 C16 C17 C18 C19 C20; do
  s=$(date +%s)
  ./check $c --tier $TIER > out/all_$c.log 2>&1; rc=$?
  echo "$c rc=$rc $(( $(date +%s) - s ))s $(grep -E '^C[0-9]+ tier' out/all_$c.log | cut -c1-120)"
  grep -E '^(VIOLATION|HARNESS-ERROR)' out/all_$c.log | head -3
done
