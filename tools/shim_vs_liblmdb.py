#!/venv/bin/python
"""
Optional self-test of the LMDB engine model (shims/lmdb) against the real C library, when a
liblmdb.so happens to be present (no Python binding is installed; tools/reallmdb.py is a minimal
ctypes binding).  Random operation sequences in the style of kv.py's usage: puts/deletes of
index-shaped keys in write transactions, then cursor walks (set_range / prev / next / first / last /
key) in read transactions, deletes of the current and of other keys during a walk, key-size rules.
Prints the number of compared steps and differences; exit 1 on any difference.  Not a property check.

usage: tools/shim_vs_liblmdb.py [seed] [rounds]
"""
import os, random, shutil, sys, tempfile
HERE = os.path.dirname(os.path.abspath(__file__))
sys.path.insert(0, os.path.join(os.path.dirname(HERE), "shims"))
sys.path.insert(0, HERE)
LIB = "/root/miniconda/lib/liblmdb.so"
if not os.path.exists(LIB):
    print("liblmdb.so not present: nothing to compare")
    sys.exit(0)
import lmdb as shim
import reallmdb as real

seed = int(sys.argv[1]) if len(sys.argv) > 1 else 1
rounds = int(sys.argv[2]) if len(sys.argv) > 2 else 300
rnd = random.Random(seed)
# kv.py's envelope: index prefixes 00..09 and the tombstone key ee that is always present (so a seek for any index
# key lands on a key); cursors are only stepped while positioned
PREF = [b"\x00", b"\x01", b"\x02", b"\x03", b"\x04", b"\x09"]


def rkey():
    k = rnd.choice(PREF) + bytes(rnd.choice([0, 1, 0x61, 0xff]) for _ in range(rnd.choice([0, 1, 2, 4, 33])))
    if rnd.random() < 0.5:
        k += b"\x00" + rnd.choice([b"\x00\x00\x00\x01", b"\x65\x53\xf1\x00", b"\xff\xff\xff\xff"]) + b"\x00" + bytes([rnd.choice([0, 1, 255])]) * 32
    if rnd.random() < 0.02:
        k = k + b"x" * rnd.choice([470, 480, 500, 520])
    return k


steps = diffs = 0
for r in range(rounds):
    d = tempfile.mkdtemp(prefix="lmdbcmp-")
    try:
        renv = real.Env(d)
        senv = shim.open(d + "-shim")
        keys = []
        rt, stx = renv.begin(True), senv.begin(write=True)
        rt.put(b"\xee", b""); stx.put(b"\xee", b"")
        rt.commit(); stx.commit()
        for _ in range(rnd.randint(1, 4)):
            rt, stx = renv.begin(True), senv.begin(write=True)
            for _ in range(rnd.randint(1, 40)):
                k = rkey() if (not keys or rnd.random() < 0.7) else rnd.choice(keys)
                op = rnd.choice(["put", "put", "put", "del", "get"])
                a = b = None
                try:
                    a = getattr(rt, {"put": "put", "del": "delete", "get": "get"}[op])(*((k, b"v") if op == "put" else (k,)))
                except real.Err as e:
                    a = "ERR"
                try:
                    b = getattr(stx, {"put": "put", "del": "delete", "get": "get"}[op])(*((k, b"v") if op == "put" else (k,)))
                    if op == "get" and b is not None:
                        b = bytes(b)
                except shim.Error:
                    b = "ERR"
                steps += 1
                if a != b:
                    diffs += 1
                    print("DIFF", op, k[:20], a, b)
                if op == "put" and a is True:
                    keys.append(k)
            if rnd.random() < 0.2:
                rt.abort(); stx.abort()
            else:
                rt.commit(); stx.commit()
        # cursor walks, with deletes during the walk
        rt, stx = renv.begin(True), senv.begin(write=True)
        rc, sc = rt.cursor(), stx.cursor()
        positioned = False
        for _ in range(rnd.randint(5, 80)):
            op = rnd.choice(["set_range", "set_range", "prev", "prev", "prev", "next", "first", "last", "del_cur", "del_other"])
            if not positioned and op in ("prev", "next", "del_cur", "del_other"):
                op = rnd.choice(["set_range", "first", "last"])
            if op == "set_range":
                k = rkey() if rnd.random() < 0.5 or not keys else rnd.choice(keys) + rnd.choice([b"", b"\xff", b"\x00"])
                a, b = rc.set_range(k), sc.set_range(k)
            elif op in ("prev", "next", "first", "last"):
                a, b = getattr(rc, op)(), getattr(sc, op)()
            elif op == "del_cur":
                k = rc.key()
                if not k or k == b"\xee":
                    continue
                a, b = rt.delete(k), stx.delete(k)
                # kv.py always moves the cursor after deleting (prev); do the same before looking at the key
                a2, b2 = rc.prev(), sc.prev()
                if a2 != b2:
                    diffs += 1
                    print("DIFF prev-after-delete", a2, b2)
            else:
                if not keys:
                    continue
                k = rnd.choice(keys)
                if k == rc.key() or k == b"\xee":
                    continue
                a, b = rt.delete(k), stx.delete(k)
            steps += 1
            if op in ("set_range", "prev", "next", "first", "last"):
                positioned = bool(a)
            elif op == "del_cur":
                positioned = bool(a2)
            ka, kb = rc.key(), bytes(sc.key())
            if a != b or ka != kb:
                diffs += 1
                print("DIFF", op, a, b, ka[:16], kb[:16])
        rc.close()
        rt.abort(); stx.abort()
        renv.close(); senv.close()
    finally:
        shutil.rmtree(d, ignore_errors=True)
        shim._reset(d + "-shim")
print("compared %d steps over %d rounds, %d differences (seed %d)" % (steps, rounds, diffs, seed))
sys.exit(1 if diffs else 0)
