#!/bin/sh
# usage: tools/try_mutation.sh <patch.diff> <Cnn> [<Cnn> ...]   (applies to /repo, runs quick checks, always reverts)
P="$1"; shift
cd /verif
git -C /repo diff --quiet || { echo "repo dirty"; exit 3; }
git -C /repo apply "$P" || { echo "patch does not apply"; exit 3; }
trap 'git -C /repo checkout -- . ' EXIT INT TERM
for c in "$@"; do
  s=$(date +%s)
  ./check "$c" --tier "${TIER:-quick}" > /tmp/try_$c.log 2>&1; rc=$?
  echo "== $c rc=$rc ($(( $(date +%s) - s ))s): $(grep -c '^VIOLATION' /tmp/try_$c.log) violation lines"
  grep -E '^(violation|VIOLATION|HARNESS)' /tmp/try_$c.log | cut -c1-300 | head -4
done
