#!/venv/bin/python
"""Run the repository's pinned test suite (guard off) and compare with BASELINE.json's stable_pass."""
import json, os, subprocess, sys, tempfile
import xml.etree.ElementTree as ET

base = json.load(open("/root/.vp/BASELINE.json"))
env = dict(os.environ)
env.pop("NOSTR_RELAY_VERIF", None)
env["PYTHONDONTWRITEBYTECODE"] = "1"  # never leave .pyc files in the repository's working tree
out = tempfile.mktemp(suffix=".xml")
cmd = ["/venv/bin/python", "-m", "pytest", "-ra", "-q", "-p", "no:cacheprovider", "--timeout=900",
       "--continue-on-collection-errors", "--junitxml=" + out]
env.setdefault("COVERAGE_FILE", os.path.join(tempfile.gettempdir(), "verif-baseline.coverage"))  # keep the repository tree clean
p = subprocess.run(cmd, cwd=os.environ.get("VERIF_REPO", "/repo"), env=env, stdout=subprocess.PIPE, stderr=subprocess.STDOUT)
passed = set()
for tc in ET.parse(out).getroot().iter("testcase"):
    if not any(c.tag in ("failure", "error", "skipped") for c in tc):
        passed.add("%s::%s" % (tc.get("classname"), tc.get("name")))
os.unlink(out)
missing = [t for t in base["stable_pass"] if t not in passed]
# timing-sensitive tests (test_timeout, ...) flake under heavy machine load: re-run what is missing, alone, up to twice
for attempt in range(2):
    if not missing:
        break
    ids = []
    for t in missing:
        mod, name = t.split("::")
        parts = mod.split(".")
        ids.append("%s.py::%s::%s" % ("/".join(parts[:-1]), parts[-1], name))
    out2 = tempfile.mktemp(suffix=".xml")
    subprocess.run(cmd[:-1] + ["--junitxml=" + out2, "-p", "no:xdist"] + ids, cwd=os.environ.get("VERIF_REPO", "/repo"), env=env,
                   stdout=subprocess.PIPE, stderr=subprocess.STDOUT)
    try:
        for tc in ET.parse(out2).getroot().iter("testcase"):
            if not any(c.tag in ("failure", "error", "skipped") for c in tc):
                passed.add("%s::%s" % (tc.get("classname"), tc.get("name")))
        os.unlink(out2)
    except Exception:
        pass
    missing = [t for t in base["stable_pass"] if t not in passed]
print("passed %d, baseline stable %d, missing %d" % (len(passed), len(base["stable_pass"]), len(missing)))
for m in missing:
    print("MISSING", m)
sys.exit(1 if missing else 0)
