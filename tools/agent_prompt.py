#!/venv/bin/python
"""prints the prompt given to a mutation sub-agent for one property (only the property text + environment facts)"""
import json, sys
pid = sys.argv[1]
n = sys.argv[2] if len(sys.argv) > 2 else "TWO"
p = [json.loads(l) for l in open('/verif/properties.jsonl') if json.loads(l)['id'] == pid][0]
print(f"""You are working in a scratch git worktree of the Python project davestgermain/nostr_relay (a Nostr relay: websocket NIP-01 message handling in nostr_relay/web.py over pluggable storage - SQL via SQLAlchemy/aiosqlite in nostr_relay/storage/db.py and a hand-built LMDB secondary-index layout, query planner and scanner in nostr_relay/storage/kv.py; plus auth.py, validators.py, rate_limiter.py, notifier.py, dynamic_lists.py). The worktree is /tmp/wt/{pid}. Work ONLY inside /tmp/wt/{pid} and /tmp/mut/{pid} (create the latter). Never touch /repo or /verif, never commit.

Environment facts:
- Python is /venv/bin/python (3.12). No network. Run code with `cd /tmp/wt/{pid} && PYTHONPATH=/tmp/wt/{pid}:/tmp/pyshims timeout 300 /venv/bin/python ...` so that `nostr_relay` is imported from the worktree (check `nostr_relay.__file__`).
- py-lmdb and msgpack are NOT installed. A pure-Python stand-in for both is in /tmp/pyshims (hence the PYTHONPATH above); with it `nostr_relay.storage.kv` imports and works (state kept in-process per path; threads work). test/test_kv.py shows how the LMDB storage is used (LMDBStorage({{"class": "nostr_relay.storage.kv.LMDBStorage", "path": some_dir}}), `await storage.setup()`, `await storage.add_event(json)`, `await storage.wait_for_writer()`, `storage.run_single_query([...])`, `await storage.close()`). ALWAYS close an LMDB storage in a finally block - its writer thread is non-daemon and a forgotten close hangs the interpreter. test/test_main.py and test/__init__.py show how the SQL storage (sqlite in memory) and the ASGI app are driven in tests. Set `validators: []` in the storage options if you want to add unsigned hand-made events. `nostr_relay.web.start_client(storage, ws_send, ws_recv, ws_close, log, rate_limiter=NullRateLimiter(), remote_addr=...)` can be driven directly with plain coroutines to simulate a websocket connection (raise falcon.WebSocketDisconnected from ws_recv to disconnect).
- Existing test suite: `cd /tmp/wt/{pid} && /venv/bin/python -m pytest -q -p no:cacheprovider --timeout=900 test/`. About 15 tests already fail on the unmodified tree (environment reasons) and test_kv.py is skipped because lmdb is missing - expected. "Passing the existing tests" means: every test that passes on the unmodified worktree still passes with your change (test_user_throttling is flaky, ignore it). Record the baseline first.

The property (this is all you get):
"{pid} - {p['title']}. {p['statement']} Quantified over: {p['quantifier']['text']}."

Your task: produce {n} different, independent changes (mutations) to the source under nostr_relay/ that each BREAK this property while still compiling and passing the existing tests. They must be realistic (what a developer could plausibly introduce in a refactor, optimisation, or feature) and SUBTLE: each must need something specific to manifest - a particular interleaving, a crash or fault at a particular point, a multi-step sequence of operations, an unusual input, or two cooperating sites that each look fine alone - NOT something ordinary use would expose at once. Use different root causes / code sites for the mutations; if the property names two backends, prefer one mutation per backend.

For each mutation N deliver in /tmp/mut/{pid}/mN/:
- patch.diff : `git diff` of the worktree for that mutation alone (must apply with `git apply` to a clean checkout of the same commit)
- demo.py : a small self-contained program that exits 0 on the unmodified code and exits non-zero (printing what went wrong) with the mutation applied; run as `cd <tree> && PYTHONPATH=<tree>:/tmp/pyshims timeout 300 /venv/bin/python demo.py` - it must import nostr_relay from PYTHONPATH, not hard-code /tmp/wt/{pid}, must not need the network or real sleeps longer than a few seconds.
- notes.md : which code site, why it breaks the property, what exactly is needed for it to manifest, and the test-suite result you observed with the change applied.
Verify both directions yourself (demo passes on the clean tree, fails on the mutated tree; test suite unchanged). Reset the worktree (`git checkout -- .`) between mutations and at the end. Final answer: a short summary of each mutation (site, trigger).""")
