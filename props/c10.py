"""
C10 - every LMDB index entry has its record and every record all its index entries.

Generated histories of add / delete / replace / kind-5 / GC / reopen / injected
engine failure and kill, on the real kv.py over the LMDB model.  After every
step two independent oracles:
 (a) keyspace walk: the set of index keys equals the set regenerated from the
     primary records by the harness's own encoder of the documented layout;
 (b) access paths: every record is returned by a query on each of its attributes
     and removed ids by none; nothing is returned that has no record.
"""
import json

from hypothesis import strategies as st

from vlib import events as E
from vlib import harness as H
from vlib.core import Result, Sub, V

LEVEL = "exploration"
RULE = ("Hypothesis-generated operation histories (add/delete/replace/kind-5/GC/reopen/fault) "
        "against kv.py; non-trivial = a removal (delete, supersession, NIP-09, GC) of an event "
        "with >=2 indexable tags while another stored event shares one of those tag values; "
        "distinct by hash of the history")
ASSUMPTIONS = [
    "py-lmdb is replaced by /verif/shims/lmdb (validated against liblmdb 0.9.31 for the cursor "
    "operations kv.py uses); transaction atomicity is the engine's documented guarantee",
    "writer and query threads replaced by synchronous execution of the same code (deterministic mode)",
]

PUBS = E.ADJ_HEX[3:6]
IDS = [("%02x" % i) * 32 for i in (0x00, 0x01, 0x10, 0x7f, 0xab, 0xfe, 0xff)] + [
    "ab" * 31 + "00", "ab" * 31 + "01", "00" * 31 + "01"]
VALS = ["a", "a", "a", "ab", "ab", "", "abc", "ab\x00", "\x00", "é", "x" * 300, "y" * 520]
NAMES = ["t", "t", "t", "p", "d", "d", "e", "é", "\x00", "expiration", "delegation", "tt"]


def indexable(tag):
    return (isinstance(tag, list) and len(tag) >= 2 and isinstance(tag[0], str)
            and (len(tag[0]) == 1 or tag[0] in ("expiration", "delegation")))


def expected_keys(rec):
    """Index keys of one record, per the documented layout (written independently of kv.convert).
    Returns (must, may): non-string tag values have no defined rendering -> may."""
    eid = bytes.fromhex(rec["id"])
    tail = b"\x00" + rec["created_at"].to_bytes(4, "big") + b"\x00" + eid
    pk = bytes.fromhex(rec["pubkey"])
    kind = rec["kind"].to_bytes(4, "big")
    must = {
        b"\x01" + rec["created_at"].to_bytes(4, "big") + tail,
        b"\x02" + kind + tail,
        b"\x03" + pk + tail,
        b"\x04" + pk + b"\x00" + kind + tail,
    }
    may = set()
    anyof = []
    for t in rec["tags"]:
        if indexable(t):
            v = t[1]
            if isinstance(v, str):
                must.add(b"\x09" + t[0].encode() + b"\x00" + v.encode() + tail)
            else:
                # no rendering is specified for non-string values: one of these must be there
                alts = {b"\x09" + t[0].encode() + b"\x00" + r.encode() + tail
                        for r in {str(v), json.dumps(v), json.dumps(v, separators=(",", ":"))}}
                may |= alts
                anyof.append(alts)
    return must, may, anyof


class Kill(BaseException):
    pass


@st.composite
def st_event(draw):
    kind = draw(st.sampled_from([1, 1, 1, 0, 3, 5, 7, 10000, 30000, 30000, 39999, 20000]))
    tags = []
    for _ in range(draw(st.integers(1, 5))):
        name = draw(st.sampled_from(NAMES))
        which = draw(st.integers(0, 9))
        if name == "e" or (kind == 5 and which < 6):
            tags.append(["e", draw(st.sampled_from(IDS))])
        elif name == "expiration":
            tags.append([name, draw(st.sampled_from(
                [str(E.T0 - 1), str(E.T0), str(E.T0 + 1), str(E.T0 + 50), "abc", ""]))])
        elif which == 9:
            v = draw(st.sampled_from([1, True, None, 2.5, ["n"], 0, False, 1.0, 0.1, 48.8566, {"a": [1]}, {"a": {"b": ["x", 2]}},
                                      [["n"], {"k": [0.1]}], {}]))
            tags.append([name, v])
            if draw(st.booleans()):  # a sibling that compares equal in Python but renders differently
                tags.append([name, draw(st.sampled_from([1, True, 1.0, 0, False, "1", [["n"]]]))])
        elif which == 8:
            tags.append([name])
        elif which == 7:
            tags.append([name, draw(st.sampled_from(VALS)), draw(st.sampled_from(VALS))])
        else:
            tags.append([name, draw(st.sampled_from(VALS))])
    if tags and draw(st.integers(0, 4)) == 0:
        tags.append(list(tags[0]))  # duplicate tag
    if draw(st.integers(0, 11)) == 0:
        # a big event (contact list / relay list sized): hundreds of index entries in one write
        n = draw(st.sampled_from([40, 300, 600]))
        tags = tags + [["p", "%064x" % i] for i in range(n)]
    ts = draw(st.sampled_from([E.T0 - 2, E.T0 - 1, E.T0, E.T0 + 1, 1, 0, 2**32 - 1, 2**32]))
    return E.free(draw(st.sampled_from(IDS)), draw(st.sampled_from(PUBS)), kind, ts, tags,
                  draw(st.sampled_from(["", "c"])))


def st_op():
    add = st.tuples(st.just("add"), st_event()).map(list)
    return E.weighted(
        (12, add),
        (2, st.tuples(st.just("del"), st.sampled_from(IDS)).map(list)),
        (2, st.tuples(st.just("gc"), st.sampled_from([-5, 0, 1, 2, 100])).map(list)),
        (1, st.just(["reopen"])),
        (3, st.tuples(st.just("fault"), st.sampled_from(["error", "kill"]),
                      st.one_of(st.integers(0, 12), st.integers(0, 12), st.integers(13, 1300))).map(list)),
        # the next n operations are queued behind each other before the writer runs
        (2, st.tuples(st.just("hold"), st.integers(1, 3)).map(list)),
    )


@st.composite
def st_history(draw, max_ops):
    ops = draw(st.lists(st_op(), min_size=5, max_size=max_ops))
    perm = draw(st.permutations(IDS))
    j = 0
    for op in ops:
        if op[0] == "add":
            if j == 0 or draw(st.integers(0, 6)) != 0:  # mostly fresh ids, sometimes a duplicate
                op[1]["id"] = perm[j % len(perm)]
                j += 1
            else:
                op[1]["id"] = perm[draw(st.integers(0, j - 1)) % len(perm)]
        elif op[0] == "del" and j and draw(st.integers(0, 3)) != 0:
            op[1] = perm[draw(st.integers(max(0, j - 3), j - 1)) % len(perm)]  # mostly something added recently
    return ops


class Coherence(Sub):
    name = "coherence"
    examples = {"quick": 2400, "thorough": 19200}
    shards = {"quick": 8, "thorough": 16}
    rule = RULE

    def strategy(self, tier):
        return st_history(18 if tier == "quick" else 30)

    def run_case(self, case):
        return H.run(self._run, case)

    async def _check(self, rig, ever, step, viol):
        items = rig.kv_items()
        records = await rig.dump()
        actual = set()
        for k, v in items:
            if k[:1] == b"\x00":
                if len(k) != 33 or bytes.fromhex(_id_of(v)) != k[1:]:
                    viol.append(V("kv-primary-key-mismatch", "primary key is 00+id of its record",
                                  step=step, key=k.hex()))
            elif k == b"\xee":
                pass
            else:
                actual.add(k)
        must = set()
        may = set()
        for rec in records.values():
            m, y, anyof = expected_keys(rec)
            must |= m
            may |= y
            for alts in anyof:
                if not (alts & actual):
                    viol.append(V("kv-unindexed-record", "record lacks an index entry for a non-string tag value",
                                  step=step, id=rec["id"], candidates=[a.hex() for a in sorted(alts)][:3]))
        missing = must - actual
        extra = actual - must - may
        for k in sorted(missing)[:3]:
            viol.append(V("kv-unindexed-record", "record lacks an index entry", step=step, key=k.hex(),
                          index=k[0]))
        for k in sorted(extra)[:3]:
            rid = k[-32:].hex()
            sig = "kv-dangling-index-entry" if rid not in records else "kv-foreign-index-entry"
            viol.append(V(sig, "index entry without record / under a value the event does not have",
                          step=step, key=k.hex(), index=k[0]))
        # (b) access paths
        recs = list(records.values())
        for rec in recs[:6]:
            paths = [
                {"ids": [rec["id"]]},
                {"kinds": [rec["kind"]]},
                {"authors": [rec["pubkey"]]},
                {"authors": [rec["pubkey"]], "kinds": [rec["kind"]]},
            ]
            # time window strictly containing created_at (bounds themselves are MAY)
            if 2 <= rec["created_at"] < 2145934798:
                paths.append({"since": rec["created_at"] - 1, "until": rec["created_at"] + 1})
            elif rec["created_at"] == 1:
                paths.append({"until": 2})
            tagged = [t for t in rec["tags"] if indexable(t) and len(t[0]) == 1 and isinstance(t[1], str)]
            for t in (tagged if len(tagged) <= 12 else tagged[:8] + tagged[-4:]):
                paths.append({"#" + t[0]: [t[1]]})
            for f in paths:
                got = await rig.query([dict(f, limit=1000)])
                ids = [g["id"] for g in got]
                if rec["id"] not in ids:
                    viol.append(V("kv-record-not-found-by-path", "record reachable through every access path",
                                  step=step, filter=f, id=rec["id"]))
                for g in got:
                    if g["id"] not in records:
                        viol.append(V("kv-ghost-result", "query returned an event without a record",
                                      step=step, filter=f, id=g["id"]))
        gone = [i for i in ever if i not in records]
        if gone:
            got = await rig.query([{"ids": gone, "limit": 1000}])
            for g in got:
                viol.append(V("kv-removed-still-found", "removed id is found by no path", step=step, id=g["id"]))

    async def _run(self, case):
        import lmdb
        from nostr_relay.storage import kv

        viol = []
        labels = set()
        ever = []
        nontrivial = False
        clock = H.Clock(E.T0)
        rig = H.Rig("kv", validators=[], clock=clock)
        await rig.open()
        try:
            fault = None
            hold = 0
            before = None
            for step, op in enumerate(case):
                if before is None:
                    before = await rig.dump()
                if op[0] == "fault":
                    fault = (op[1], op[2])
                    continue
                if op[0] == "hold":
                    hold = op[1]
                    continue
                if op[0] == "add":
                    ev = op[1]
                    try:
                        await rig.storage.add_event(json.loads(json.dumps(ev)))
                    except Exception:
                        labels.add("add-refused")
                    if ev["id"] not in ever:
                        ever.append(ev["id"])
                elif op[0] == "del":
                    await rig.storage.delete_event(op[1])
                elif op[0] == "gc":
                    clock.now = E.T0 + op[1]
                    gc = kv.KVGarbageCollector(rig.storage)
                    await gc.run_once()
                elif op[0] == "reopen":
                    await rig.close()
                    rig = H.Rig("kv", validators=[], clock=clock, path=rig.path)
                    await rig.open()
                    labels.add("reopen")
                if hold and op[0] in ("add", "del") and step + 1 < len(case):
                    hold -= 1
                    labels.add("queued-behind")
                    continue
                hold = 0
                # apply queued writes, possibly with a fault
                if fault and rig.pending_writes():
                    kind, k = fault
                    fault = None
                    n = [0]

                    def hook(opname, key, kind=kind, k=k, n=n):
                        n[0] += 1
                        if n[0] - 1 == k:
                            if kind == "error":
                                raise lmdb.Error("injected")
                            raise Kill()

                    lmdb.FAULT_HOOK = hook
                    try:
                        rig.pump()
                    except Kill:
                        labels.add("kill-fired")
                        rig.storage.writer_queue.items.clear()
                        path = rig.path
                        await rig.close()
                        rig = H.Rig("kv", validators=[], clock=clock, path=path)
                        await rig.open()
                    finally:
                        lmdb.FAULT_HOOK = None
                    if n[0] > k and kind == "error":
                        labels.add("error-fired")
                else:
                    rig.pump()
                await rig.settle()
                after = await rig.dump()
                removed = [before[i] for i in before if i not in after]
                for r in removed:
                    labels.add("removal")
                    tv = {(t[0], t[1]) for t in r["tags"] if indexable(t) and isinstance(t[1], str)}
                    if len(tv) >= 2:
                        for o in after.values():
                            if tv & {(t[0], t[1]) for t in o["tags"] if indexable(t) and isinstance(t[1], str)}:
                                nontrivial = True
                before = None
                await self._check(rig, ever, step, viol)
                if viol:
                    break
        finally:
            await rig.close()
            lmdb._reset(rig.path)
        labels.add("records>=3" if len(ever) >= 3 else "records<3")
        return Result(viol, nontrivial, sorted(labels))


def _id_of(v):
    from msgpack import unpackb

    return unpackb(v, use_list=True)[1].hex()


SUBCHECKS = [Coherence()]
