"""
C14 - role-based authorization is enforced on every read and write path.

Sub-checks
  matrix     exhaustive: every action->roles configuration over the role alphabet {a, r, w}
             (8 x 8 save/query sets) x 9 identities (unauthenticated + every role subset obtained through a
             real NIP-42 AUTH) x {save, query} x {websocket, direct storage call} x both backends.
             allowed <=> configured roles intersect the identity's roles (anonymous role when unauthenticated);
             refused => 'restricted' answer, raw dump unchanged, no push, no subscription registered;
             allowed => normal service.
  output     generated output validators (hide by pubkey set / kind / all / none / privileged viewers): no hidden
             event appears in any frame, stored or live, to any connection.
  roles      sequences of set_auth_roles / get_auth_roles / get_all_auth_roles: what is read back equals the last
             value set (as a set of lower-case letters).
"""
import asyncio
import itertools
import json

from hypothesis import strategies as st

from vlib import bootstrap
from vlib import events as E
from vlib import harness as H
from vlib import outvalid
from vlib.core import Result, Sub, V, jhash

LEVEL = "exploration"
RULE = ("matrix: one evaluation = (config, identity, action, path, backend), non-trivial = authentication enabled and "
        "the decision for this identity differs from that of another identity or action under the same config; "
        "output/roles: Hypothesis cases")
ASSUMPTIONS = ["identities are established through the real AUTH handshake with roles stored by set_auth_roles",
               "SQLite only; LMDB engine modelled"]

ALPHA = ["a", "r", "w"]
SUBSETS = ["".join(c) for n in range(4) for c in itertools.combinations(ALPHA, n)]
URL = "ws://localhost:6969"


def auth_event(k, challenge, now):
    return E.make(k, 22242, int(now), [["relay", URL], ["challenge", challenge]], "")


async def connect(rig, k=None, roles=None, addr="10.0.0.1", preset=False):
    """open a connection; authenticate as key k if roles is not None"""
    c = rig.conn(addr)
    await rig.settle()
    fr = c.frames()
    challenge = fr[0][1] if fr and fr[0][0] == "AUTH" else None
    if roles is not None:
        if not preset:
            await rig.storage.set_auth_roles(E.PKS[k], roles)
            rig.pump()
            await rig.settle()
        await c.send(["AUTH", auth_event(k, challenge, rig.clock.now)])
    return c


def expect_allowed(cfg_roles, identity_roles):
    return bool(set(cfg_roles) & set(identity_roles))


class Matrix(Sub):
    name = "matrix"
    mode = "enumerate"
    exhaustive = True
    shards = {"quick": 16, "thorough": 16}
    rule = ("exhaustive: 8 save sets x 8 query sets x 9 identities x 2 actions x 2 paths x 2 backends over {a,r,w} "
            "(thorough adds the role letter s and disabled authentication)")

    def enumerate(self, tier):
        for save, query in itertools.product(SUBSETS, SUBSETS):
            for backend in ("kv", "sql"):
                yield {"save": save, "query": query, "backend": backend}

    def run_case(self, case):
        return H.run(self._run, case)

    async def _run(self, case):
        backend = case["backend"]
        viol = []
        nts = []
        evals = 0
        cfg = {"authentication": {"enabled": True, "relay_urls": [URL],
                                  "actions": {"save": case["save"], "query": case["query"]}},
               "service_privatekey": bootstrap.SERVICE_SK}
        identities = [None] + SUBSETS
        only = case.get("only")
        n = 0
        for ident in identities:
          if only and ident != only[0]:
              continue
          async with H.Rig(backend, config=cfg) as rig:
            stored_ev = E.make(3, 1, E.T0 - 5, [], "already there")
            rig.storage.authenticator.is_enabled = False
            await rig.add(stored_ev)
            rig.storage.authenticator.is_enabled = True
            if ident is not None:
                await rig.storage.set_auth_roles(E.PKS[0], ident)
                rig.pump()
                await rig.settle()
            for action, path in itertools.product(("save", "query"), ("ws", "direct")):
                if only and [ident, action, path] != only:
                    continue
                evals += 1
                roles = ["a"] if ident is None else list(ident)
                allowed = expect_allowed(case[action], roles)
                others = [expect_allowed(case[a2], ["a"] if i2 is None else list(i2)) for i2 in identities for a2 in ("save", "query")]
                if any(o != allowed for o in others):
                    nts.append(jhash([case, ident, action, path]))
                c = await connect(rig, 0, ident, preset=True)
                token = {} if ident is None else {"pubkey": E.PKS[0], "roles": set(ident)}
                before = await rig.dump()
                n += 1
                # regular and ephemeral kinds alternate: nothing is stored for an ephemeral event, it is only broadcast
                ev = E.make(1, 1 if n % 3 else 20001, E.T0 + n, [], "x%d" % n)
                if action == "save":
                    if path == "ws":
                        fr = [json.loads(x) for x in await c.send(["EVENT", ev])]
                        oks = [f for f in fr if f[0] == "OK"]
                        ok = bool(oks and oks[0][2])
                        msg = oks[0][3] if oks else ""
                    else:
                        ok, msg = await rig.add(ev, token=token)
                    after = await rig.dump()
                    if allowed:
                        if not ok or (ev["id"] not in after and ev["kind"] == 1):
                            viol.append(V("%s-allowed-save-refused" % backend, "a permitted identity can save",
                                          case=case, identity=ident, path=path, msg=msg))
                    else:
                        if ok or "restricted" not in str(msg):
                            viol.append(V("%s-forbidden-save-accepted:%s" % (backend, path),
                                          "an identity without a save role is told 'restricted'",
                                          case=case, identity=ident, path=path, ok=ok, msg=msg))
                        if after != before:
                            viol.append(V("%s-forbidden-save-stored:%s" % (backend, path),
                                          "a forbidden event is not stored", case=case, identity=ident, path=path))
                else:
                    if path == "ws":
                        # a REQ without a usable filter is answered EOSE before any role check and starts the
                        # connection's sender task
                        await c.send(["REQ", "warmup", {"kinds": "x"}])
                        fr = [json.loads(x) for x in await c.send(["REQ", "q", {"kinds": [1]}])]
                        got = [f for f in fr if f[0] == "EVENT"]
                        notices = [f[1] for f in fr if f[0] == "NOTICE"]
                        eose = [f for f in fr if f[0] == "EOSE"]
                    else:
                        evs, n_eose, err = await rig.req([{"kinds": [1]}], token=token, close=False)
                        got, notices, eose = evs, [err] if err else [], [1] * n_eose
                    if allowed:
                        if not eose or not got:
                            viol.append(V("%s-allowed-query-refused" % backend, "a permitted identity is served",
                                          case=case, identity=ident, path=path, notices=notices))
                    else:
                        if got or eose:
                            viol.append(V("%s-forbidden-query-served:%s" % (backend, path),
                                          "an identity without a query role is not served",
                                          case=case, identity=ident, path=path, events=len(got)))
                        if not any("restricted" in str(x) for x in notices):
                            viol.append(V("%s-forbidden-query-not-told:%s" % (backend, path),
                                          "a refused REQ is answered 'restricted'", case=case, identity=ident, notices=notices))
                        from props.c13 import _client_id

                        cid = _client_id(rig, c) if path == "ws" else None
                        if cid is not None and "q" in rig.storage.clients.get(cid, {}):
                            viol.append(V("%s-refused-subscription-registered" % backend,
                                          "a refused REQ registers no subscription", case=case, identity=ident))
                        # nothing may be delivered later either
                        if path == "ws":
                            n0 = len(c.out)
                            rig.storage.authenticator.is_enabled = False
                            await rig.add(E.make(2, 1, E.T0 + 500 + n, [], "later"))
                            rig.storage.authenticator.is_enabled = True
                            if any(f[0] == "EVENT" for f in c.frames(n0)):
                                viol.append(V("%s-forbidden-query-gets-live-events" % backend,
                                              "no frame is ever delivered to a refused subscription", case=case, identity=ident))
                if not c.task.done():
                    await c.disconnect()
                if viol:
                    break
            if viol:
                viol[0]["detail"]["only"] = [ident, action, path]
                break
        return Result(viol, bool(nts), ["backend:" + backend], sample=case, evals=max(evals, 1), nt_hashes=nts)


# ------------------------------------------------------------------ output validator


@st.composite
def st_output_case(draw):
    mode = draw(st.sampled_from([
        {"kind": "hide-pubkeys", "pubkeys": [E.PKS[1]]}, {"kind": "hide-pubkeys", "pubkeys": [E.PKS[1], E.PKS[2]]},
        {"kind": "hide-kinds", "kinds": [7]}, {"kind": "none"}, {"kind": "all"},
        {"kind": "privileged", "privileged": [E.PKS[0]], "pubkeys": [E.PKS[1]]}]))
    ops = []
    for _ in range(draw(st.integers(3, 10))):
        k = draw(st.integers(0, 5))
        if k <= 2:
            ops.append(["event", draw(st.integers(0, 2)), draw(st.sampled_from([1, 7])), draw(st.integers(0, 2))])
        else:
            flt = st.sampled_from([{"kinds": [1, 7]}, {"authors": [E.PKS[1]]}, {"kinds": [7]}, {"since": 1}, {"kinds": [1]}])
            # one filter, or a REQ with several filters (several plans / one UNION)
            f = draw(st.one_of(flt, flt, st.lists(flt, min_size=2, max_size=3)))
            if k == 5:
                # the stored query is kept in flight while further events are accepted, then let go
                ops.append(["held-req", draw(st.integers(0, 2)), f,
                            draw(st.lists(st.tuples(st.integers(0, 2), st.sampled_from([1, 7]), st.integers(0, 2)).map(list),
                                          min_size=1, max_size=3))])
            else:
                ops.append(["req", draw(st.integers(0, 2)), f])
    return {"backend": draw(st.sampled_from(["kv", "sql"])), "mode": mode, "ops": ops,
            "auth": draw(st.booleans())}


class Output(Sub):
    name = "output"
    examples = {"quick": 500, "thorough": 4000}
    shards = {"quick": 8, "thorough": 16}
    rule = ("3 connections (one authenticated as a privileged key when auth is on) x generated EVENT/REQ sequences x "
            "output validator family; non-trivial = a hidden event was accepted while a subscription matching it was open "
            "or opened later")

    def strategy(self, tier):
        return st_output_case()

    def run_case(self, case):
        return H.run(self._run, case)

    async def _run(self, case):
        backend, mode = case["backend"], case["mode"]
        viol = []
        outvalid.MODE.clear()
        outvalid.MODE.update(mode)
        cfg = {"output_validator": "vlib.outvalid.check", "service_privatekey": bootstrap.SERVICE_SK}
        if case["auth"]:
            cfg["authentication"] = {"enabled": True, "relay_urls": [URL], "actions": {"save": "a", "query": "a"}}
        nt = False
        held = any(op[0] == "held-req" for op in case["ops"])
        async with H.Rig(backend, config=cfg, file_db=True if (backend == "sql" and held) else None) as rig:
            conns = []
            for i in range(3):
                if case["auth"] and i == 0:
                    conns.append(await connect(rig, 0, "a", addr="10.0.0.%d" % (i + 1)))
                else:
                    conns.append(rig.conn("10.0.0.%d" % (i + 1)))
            viewer_pk = [E.PKS[0] if case["auth"] else None, None, None]
            n = 0
            hidden_seen = False
            for op in case["ops"]:
                c = conns[op[1]]
                if op[0] == "event":
                    n += 1
                    await c.send(["EVENT", E.make(op[3], op[2], E.T0 + n, [], "o%d" % n)])
                elif op[0] == "held-req":
                    import time as _t

                    async def turns(k=12):
                        for _ in range(k):
                            await asyncio.sleep(0)
                            if backend == "sql":
                                _t.sleep(0.0003)
                    pool = rig.storage.query_pool if backend == "kv" else None
                    if pool is not None:
                        pool.park = True
                    else:
                        await rig.hold_query_slots()
                    n += 1
                    c.feed(["REQ", "h%d" % n] + (op[2] if isinstance(op[2], list) else [op[2]]))
                    await turns()
                    for (ci, kind, key) in op[3]:
                        n += 1
                        conns[ci].feed(["EVENT", E.make(key, kind, E.T0 + n, [], "o%d" % n)])
                        await turns()
                    if pool is not None:
                        pool.park = False
                        pool.release_all()
                    else:
                        rig.release_query_slots()
                    await rig.settle()
                else:
                    await c.send(["REQ", "s%d" % n] + (op[2] if isinstance(op[2], list) else [op[2]]))
            for i, c in enumerate(conns):
                for f in c.frames():
                    if f[0] == "EVENT":
                        ev = f[2]
                        ctx = {"auth_token": {"pubkey": viewer_pk[i]} if viewer_pk[i] else {}}

                        class _E:
                            pubkey = ev["pubkey"]
                            kind = ev["kind"]
                        if not outvalid.check(_E, ctx):
                            viol.append(V("%s-hidden-event-sent" % backend,
                                          "the output validator is applied to every event before it is sent",
                                          backend=backend, mode=mode, conn=i, sub=f[1], event_kind=ev["kind"],
                                          event_pubkey=ev["pubkey"][:8]))
                            break
                if viol:
                    break
            stored = await rig.dump()

            class _S:
                pass
            for e in stored.values():
                _S.pubkey, _S.kind = e["pubkey"], e["kind"]
                if not outvalid.check(_S, {"auth_token": {}}):
                    nt = True
            for c in conns:
                if not c.task.done():
                    await c.disconnect()
        outvalid.MODE.clear()
        outvalid.MODE.update({"kind": "all"})
        return Result(viol, nt, ["backend:" + backend, "mode:" + mode["kind"]])


# ------------------------------------------------------------------ role storage


class Roles(Sub):
    name = "roles"
    examples = {"quick": 300, "thorough": 2400}
    shards = {"quick": 6, "thorough": 12}
    rule = "sequences of set/get/get_all over 3 pubkeys and role strings (mixed case, empty, duplicates); non-trivial = a pubkey is set at least twice"

    def strategy(self, tier):
        roles = st.sampled_from(["a", "r", "w", "rw", "RW", "", "aws", "s", "wr", "rrw"])
        op = st.one_of(
            st.tuples(st.just("set"), st.integers(0, 2), roles),
            # LMDB applies the assignment on its writer thread: a lookup may fall between the call and the write
            st.tuples(st.just("set-lookup-apply"), st.integers(0, 2), roles),
            st.tuples(st.just("get"), st.integers(0, 3)), st.tuples(st.just("all")))
        return st.tuples(st.sampled_from(["kv", "sql"]), st.lists(op.map(list), min_size=2, max_size=10)).map(list)

    def run_case(self, case):
        return H.run(self._run, case)

    async def _run(self, case):
        backend, ops = case
        viol = []
        model = {}
        sets = {}
        cfg = {"authentication": {"enabled": True, "relay_urls": [URL]}, "service_privatekey": bootstrap.SERVICE_SK}
        async with H.Rig(backend, config=cfg) as rig:
            for step, op in enumerate(ops):
                if op[0] in ("set", "set-lookup-apply"):
                    pk = E.PKS[op[1]]
                    await rig.storage.set_auth_roles(pk, op[2])
                    if op[0] == "set-lookup-apply":
                        early = await rig.storage.get_auth_roles(pk)   # old or new value: both fine (write lag)
                        if set(early) not in (model.get(pk, {"a"}), set(op[2].lower())):
                            viol.append(V("%s-roles-read-back-differ" % backend, "a lookup returns the previous or the new assignment",
                                          step=step, got=sorted(early)))
                    rig.pump()
                    await rig.settle()
                    model[pk] = set(op[2].lower())
                    sets[pk] = sets.get(pk, 0) + 1
                    got = await rig.storage.get_auth_roles(pk)
                    if set(got) != model[pk]:
                        viol.append(V("%s-roles-read-back-differ" % backend, "role assignments read back exactly as last set",
                                      step=step, pubkey=pk[:8], got=sorted(got), want=sorted(model[pk]), ops=ops))
                elif op[0] == "get":
                    pk = E.PKS[op[1]]
                    got = await rig.storage.get_auth_roles(pk)
                    want = model.get(pk, {"a"})
                    if set(got) != want:
                        viol.append(V("%s-roles-read-back-differ" % backend, "role assignments read back exactly as last set",
                                      step=step, pubkey=pk[:8], got=sorted(got), want=sorted(want), ops=ops))
                else:
                    got = {}
                    async for pk, roles in rig.storage.get_all_auth_roles():
                        got[pk] = set(roles)
                    if got != model:
                        viol.append(V("%s-all-roles-differ" % backend, "get_all_auth_roles lists exactly the last assignments",
                                      step=step, got={k[:8]: sorted(v) for k, v in got.items()},
                                      want={k[:8]: sorted(v) for k, v in model.items()}))
                if viol:
                    break
        return Result(viol, any(v >= 2 for v in sets.values()), ["backend:" + backend])


class Reauth(Sub):
    """one connection living through role changes and repeated AUTHs: decisions follow the roles read at the latest AUTH"""

    name = "reauth"
    examples = {"quick": 300, "thorough": 2400}
    shards = {"quick": 10, "thorough": 16}
    rule = ("one websocket connection, operations AUTH as key 0/1, set_auth_roles(key, roles), EVENT, REQ in generated order, "
            "save/query role sets drawn from {a,r,w}; model: the connection holds the roles stored for its pubkey when it last "
            "authenticated (anonymous before); a decision is checked when those roles have not been reassigned since (otherwise "
            "old and new are both accepted); non-trivial = a decision made after a re-AUTH of the same pubkey whose roles were "
            "changed in between and where old and new roles decide differently")

    def strategy(self, tier):
        roles = st.sampled_from(["a", "r", "w", "rw", "", "aw"])
        op = E.weighted((3, st.tuples(st.just("auth"), st.integers(0, 1))), (3, st.tuples(st.just("set"), st.integers(0, 1), roles)),
                        (3, st.tuples(st.just("event"))), (3, st.tuples(st.just("req"))))
        # motif: roles set, AUTH, roles changed, AUTH again as the same key, then both actions
        motif = st.tuples(st.integers(0, 1), roles, roles, st.booleans()).map(
            lambda t: [["set", t[0], t[1]], ["auth", t[0]]] + ([["event"]] if t[3] else []) +
                      [["set", t[0], t[2]], ["auth", t[0]], ["event"], ["req"]])
        seq = st.tuples(st.lists(op.map(list), min_size=0, max_size=8), E.weighted((1, st.just([])), (2, motif)),
                        st.lists(op.map(list), min_size=0, max_size=4)).map(lambda t: t[0] + t[1] + t[2]).filter(lambda l: len(l) >= 3)
        return st.tuples(st.sampled_from(["kv", "sql"]), st.sampled_from(["w", "rw", "a", "r"]), st.sampled_from(["r", "rw", "a", "w"]),
                         seq).map(list)

    def run_case(self, case):
        return H.run(self._run, case)

    async def _run(self, case):
        backend, save, query, ops = case
        viol = []
        nt = False
        labels = ["backend:" + backend]
        cfg = {"authentication": {"enabled": True, "relay_urls": [URL], "actions": {"save": save, "query": query}},
               "service_privatekey": bootstrap.SERVICE_SK}
        async with H.Rig(backend, config=cfg) as rig:
            rig.storage.authenticator.is_enabled = False
            await rig.add(E.make(3, 1, E.T0 - 5, [], "already there"))
            rig.storage.authenticator.is_enabled = True
            c = rig.conn("10.0.0.1")
            await rig.settle()
            fr = c.frames()
            challenge = fr[0][1] if fr and fr[0][0] == "AUTH" else None
            await c.send(["REQ", "warmup", {"kinds": "x"}])
            stored = {}          # pubkey index -> roles string last set
            held = set("a")      # roles the connection certainly holds ...
            alt = None           # ... or, when reassigned since the last AUTH, maybe these
            who = None
            prev_for_who = None
            n = 0
            for step, op in enumerate(ops):
                if op[0] == "set":
                    await rig.storage.set_auth_roles(E.PKS[op[1]], op[2])
                    rig.pump()
                    await rig.settle()
                    stored[op[1]] = op[2]
                    if who == op[1]:
                        alt = set(op[2])
                elif op[0] == "auth":
                    rig.clock.now += 1
                    fr = [json.loads(x) for x in await c.send(["AUTH", auth_event(op[1], challenge, rig.clock.now)])]
                    new = set(stored.get(op[1], "a"))
                    reauth_changed = who == op[1] and alt is not None and alt != held
                    prev_for_who = set(held) if reauth_changed else None
                    who, held, alt = op[1], new, None
                    labels.append("re-auth-after-reassignment" if reauth_changed else "auth")
                else:
                    n += 1
                    action = "save" if op[0] == "event" else "query"
                    cfg_roles = save if action == "save" else query
                    want = expect_allowed(cfg_roles, held)
                    either = alt is not None and expect_allowed(cfg_roles, alt) != want
                    if prev_for_who is not None and expect_allowed(cfg_roles, prev_for_who) != want and not either:
                        nt = True
                    if action == "save":
                        ev = E.make(2, 1, E.T0 + n, [], "x%d" % n)
                        before = await rig.dump()
                        fr = [json.loads(x) for x in await c.send(["EVENT", ev])]
                        oks = [f for f in fr if f[0] == "OK"]
                        got = bool(oks and oks[0][2])
                        after = await rig.dump()
                        if not got and after != before:
                            viol.append(V("%s-forbidden-save-stored:ws" % backend, "a forbidden event is not stored", step=step, ops=ops))
                    else:
                        fr = [json.loads(x) for x in await c.send(["REQ", "q%d" % n, {"kinds": [1]}])]
                        got = any(f[0] == "EOSE" for f in fr)
                        await c.send(["CLOSE", "q%d" % n])
                    if got != want and not either:
                        viol.append(V("%s-decision-ignores-latest-auth:%s" % (backend, action),
                                      "an action is decided by the roles the connection obtained at its latest AUTH",
                                      step=step, ops=ops, save=save, query=query, held=sorted(held), allowed_expected=want, observed=got))
                if viol or c.task.done():
                    break
        return Result(viol, nt, labels)


SUBCHECKS = [Matrix(), Output(), Roles(), Reauth()]
