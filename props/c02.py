"""
C02 - a REQ returns every matching stored event exactly once when under its limit.

Sub-checks
  complete      Hypothesis: adjacency-built stores x well-formed filters built from the
                store, both backends, through storage.subscribe (the REQ path); oracle =
                reference matcher over the raw dump (MUST present, multiplicity 1..k,
                nothing outside MAY).
  forced-index  LMDB: the same filter executed through every single index that can serve
                it (hand-built QueryPlans through kv.execute_one_plan); all must contain
                the MUST set.
  interleaved   the filters re-queried between the writes of a history (replacements that keep the
                number of keys, deletions, unstorable tag values); oracle = raw dump at that point.
  small-scope   LMDB (and SQL in thorough): exhaustive enumeration of all stores of <=2
                (thorough <=3) events over a 36-event alphabet x all 1023 filters over the
                same alphabet.
"""
import itertools
import json

from hypothesis import strategies as st

from vlib import events as E
from vlib import harness as H
from vlib import qgen
from vlib import refmodel as R
from vlib.core import Result, Sub, V, jhash

LEVEL = "exploration"
RULE = ("stores built for byte-order adjacency and well-formed filters built from the store "
        "(Hypothesis), plus exhaustive small scope; non-trivial = MUST set non-empty and the store "
        "also holds a non-matching event; distinct by hash of (backend, store, filters)")
ASSUMPTIONS = [
    "LMDB engine modelled by /verif/shims/lmdb (validated against liblmdb for kv.py's cursor usage)",
    "SQL backend = SQLite through aiosqlite; PostgreSQL branches not exercised",
    "domain: well-formed filters with at least one condition, <=5 filters per REQ, kinds 0..65535, "
    "since/until < 2145934800; events on a since/until bound are MAY",
]
MAX_LIMIT = 60


def classify(backend, f, missing_ev, store):
    """narrow root-cause signature for a missing MUST event"""
    if backend == "kv" and "authors" in f and missing_ev["pubkey"] not in f["authors"]:
        # matched only through its NIP-26 delegation tag
        return "kv-delegator-not-queryable"
    parts = sorted(k if not k.startswith("#") else "#tag" for k in f if k != "limit")
    return "%s-missing:%s" % (backend, "+".join(parts))


def check_answer(backend, stored, filters, got, viol, where="req"):
    """got: list of event dicts (before EOSE). Returns (n_must, n_nonmatching)."""
    max_limit = MAX_LIMIT
    ids = [g["id"] for g in got]
    n_must = 0
    n_non = 0
    for ev in stored.values():
        k_may = sum(1 for f in filters if R.may_match(ev, f))
        musts = [f for f in obliging(filters) if R.must_match(ev, f)]
        cnt = ids.count(ev["id"])
        if musts:
            n_must += 1
            if cnt == 0:
                viol.append(V(classify(backend, musts[0], ev, stored), "every MUST-matching event is delivered before EOSE",
                              backend=backend, where=where, filter=musts[0], event=ev))
        if k_may == 0:
            n_non += 1
            if cnt:
                viol.append(V("%s-unsound" % backend, "only events matching a filter are returned",
                              backend=backend, where=where, filters=filters, event=ev))
        elif cnt > k_may:
            viol.append(V("%s-duplicate-delivery" % backend, "an event matching k filters arrives at most k times",
                          backend=backend, where=where, filters=filters, event=ev, count=cnt, k=k_may))
    for g in got:
        if g["id"] not in stored:
            viol.append(V("%s-ghost" % backend, "returned event is not stored", backend=backend, event=g))
        elif g != stored[g["id"]]:
            viol.append(V("%s-altered" % backend, "returned event differs from the stored one",
                          backend=backend, event=g, stored=stored[g["id"]]))
    return n_must, n_non


def in_domain(filters):
    """1..5 filters, at least one well-formed with a condition; malformed companions (e.g. an empty value list) are allowed
    in the REQ but carry no obligation"""
    good = [f for f in filters if R.wellformed_filter(f) and R.has_condition(f)]
    return 1 <= len(filters) <= 5 and bool(good)


def obliging(filters):
    return [f for f in filters if R.wellformed_filter(f) and R.has_condition(f)]


class Complete(Sub):
    name = "complete"
    examples = {"quick": 2400, "thorough": 19200}
    shards = {"quick": 16, "thorough": 16}
    rule = RULE

    def strategy(self, tier):
        # "slack": per filter None (no limit key) or k >= 0: the filter gets limit = (#stored may-matches) + k, i.e. an
        # explicit limit that is exactly enough or slightly more - it must truncate nothing
        return st.tuples(st.sampled_from(["kv", "kv", "sql"]),
                         E.weighted((9, qgen.st_store_and_filters(max_filters=5, delegation=True, history=True,
                                                                  regular_only=False)),
                                    (1, qgen.st_conjunction())),
                         st.lists(st.sampled_from([None, None, 0, 0, 1, 3]), min_size=5, max_size=5)).flatmap(
            lambda t: E.weighted((5, st.just(None)), (1, qgen.st_decoy_filters(t[1]["store"]))).map(
                lambda d: dict(t[1], backend=t[0], slack=t[2],
                               filters=t[1]["filters"] if d is None else (d + t[1]["filters"])[:5])))

    def run_case(self, case):
        return H.run(self._run, case)

    async def _run(self, case):
        backend = case["backend"]
        filters = case["filters"]
        viol = []
        labels = []
        async with H.Rig(backend, validators=[]) as rig:
            for ev in case["store"]:
                await rig.add(ev)
            stored = await rig.dump()
            if not in_domain(filters):
                return Result([], False, ["out-of-domain"])
            filters = [dict(f) for f in filters]
            for i, f in enumerate(filters[:5]):
                k = (case.get("slack") or [None] * 5)[i]
                if k is not None:
                    n_may = sum(1 for e in stored.values() if R.may_match(e, f))
                    if n_may + k <= MAX_LIMIT:
                        f["limit"] = n_may + k
                        labels.append("explicit-limit")
            for f in filters:
                if sum(1 for e in stored.values() if R.may_match(e, f)) > R.effective_limit(f, MAX_LIMIT):
                    return Result([], False, ["over-limit"])
            got, eose, err = await rig.req(filters)
            if err:
                viol.append(V("%s-req-refused" % backend, "a well-formed REQ is served", error=err, filters=filters))
            elif eose != 1:
                viol.append(V("%s-eose-count" % backend, "exactly one EOSE", eose=eose))
            n_must, n_non = check_answer(backend, stored, filters, got, viol)
            if backend == "kv":
                labels += ["plan:" + p for p in plan_classes(filters)]
            labels.append("backend:" + backend)
            labels.append("nfilters:%d" % len(filters))
            if any("since" in f or "until" in f for f in filters):
                labels.append("window")
        return Result(viol, n_must > 0 and n_non > 0, labels)


class Interleaved(Sub):
    """queries between the writes of a history: completeness holds at every point, not only for a store built in one go"""

    name = "interleaved"
    examples = {"quick": 600, "thorough": 4800}
    shards = {"quick": 12, "thorough": 16}
    rule = ("a history of accepted events (regular, replaceable, parameterized, NIP-09 deletions, duplicates; some carry a "
            "tag value the backend cannot index) with the filters re-queried at 1..4 generated points between the writes "
            "and at the end; oracle = reference matcher over the raw dump taken at that point; non-trivial = a query point "
            "lies between two writes, the MUST set is non-empty and a removal (replacement / deletion) happened before it")

    def strategy(self, tier):
        @st.composite
        def build(draw):
            c = draw(qgen.st_store_and_filters(max_filters=3, max_events=14, history=True, regular_only=False))
            store = c["store"]
            # a newer version of a replaceable event with the same number of tags (an update that keeps the key count)
            for _ in range(draw(st.integers(0, 3))):
                cand = [e for e in store if R.address(e) is not None]
                if not cand:
                    e = draw(st.sampled_from([e for e in store if e["kind"] != 5] or store))
                    e["kind"] = draw(st.sampled_from([0, 3, 10000, 30000]))
                    cand = [e]
                src = draw(st.sampled_from(cand))
                tags = [[t[0], draw(st.sampled_from(qgen.QVALS))] if len(t) == 2 and t[0] != "d" and isinstance(t[1], str)
                        else list(t) for t in src["tags"]]
                new = E.free(draw(st.binary(min_size=32, max_size=32)).hex(), src["pubkey"], src["kind"],
                             src["created_at"] + draw(st.sampled_from([1, 1, 2])), tags, "v2")
                store.insert(draw(st.integers(store.index(src) + 1, len(store))), new)
            if draw(st.integers(0, 2)) == 0:
                tagged = [e for e in store if e["tags"] and e["kind"] != 5]
                if tagged:
                    # a value no backend can index rides along with indexable ones: refused as a whole or stored as a whole
                    e = draw(st.sampled_from(tagged))
                    e["tags"] = e["tags"] + [draw(st.sampled_from([["e", ["x", "y"]], ["p", {"a": 1}], ["t", [["n"]]]]))]
            points = sorted(set(draw(st.lists(st.integers(1, len(store)), min_size=1, max_size=4))))
            return {"backend": draw(st.sampled_from(["kv", "kv", "sql"])), "store": store, "filters": c["filters"],
                    "points": points}
        return build()

    def run_case(self, case):
        return H.run(self._run, case)

    async def _run(self, case):
        backend = case["backend"]
        filters = [f for f in case["filters"] if R.wellformed_filter(f) and R.has_condition(f)]
        viol = []
        labels = ["backend:" + backend]
        nt = False
        if not filters:
            return Result([], False, ["out-of-domain"])
        async with H.Rig(backend, validators=[]) as rig:
            removed = False
            for i, ev in enumerate(case["store"]):
                before = await rig.dump()
                ok, why = await rig.add(ev)
                if not ok:
                    labels.append("refused")
                stored = await rig.dump()
                if any(j not in stored for j in before):
                    removed = True
                    labels.append("removal")
                if (i + 1) in case["points"] or i + 1 == len(case["store"]):
                    # each filter is preceded by a copy of itself with a narrower time window: whatever the relay remembers
                    # about a set of conditions (plans, statements) must not carry the earlier window along
                    tss = sorted(e["created_at"] for e in stored.values()) or [E.T0]
                    variants = []
                    for f in filters:
                        if "since" not in f and "until" not in f:
                            # a window that excludes everything stored so far / splits the store in the middle
                            w = [{"since": tss[-1] + 1}, {"until": tss[0] - 1}, {"since": tss[len(tss) // 2]},
                                 {"until": tss[len(tss) // 2]}][i % 4]
                            if all(0 <= v < R.TS_LIMIT for v in w.values()):
                                variants.append(dict(f, **w))
                        variants.append(f)
                    for f in variants:
                        if sum(1 for e in stored.values() if R.may_match(e, f)) > R.effective_limit(f, MAX_LIMIT):
                            labels.append("over-limit")
                            continue
                        got, eose, err = await rig.req([dict(f)])
                        if err:
                            viol.append(V("%s-req-refused" % backend, "a well-formed REQ is served", error=err, filters=[f]))
                        n_must, n_non = check_answer(backend, stored, [f], got, viol, where="after write %d" % (i + 1))
                        if n_must:
                            labels.append("must-nonempty")
                        if n_must and removed and i + 1 < len(case["store"]):
                            nt = True
                    if viol:
                        break
        return Result(viol, nt, labels)


class SqlConcurrent(Sub):
    """SQL: a reader racing the writer - once an event is visible through one access path it is visible through all"""

    name = "sql-concurrent"
    examples = {"quick": 32, "thorough": 256}
    shards = {"quick": 4, "thorough": 8}
    rule = ("SQLite file database with real aiosqlite threads: a publisher adds 8..40 tagged events while 1..3 readers "
            "poll {ids:[x]} and, as soon as x is returned, query the same event by tag, by author+kind and by kind+tag: "
            "each later query must return it (a read that starts after another read saw the row sees the whole event); "
            "non-trivial = a reader was polling for an event while its add_event was in flight (a poll came back empty and "
            "a later one did not)")

    def strategy(self, tier):
        return st.tuples(st.integers(8, 40), st.integers(1, 3), st.integers(1, 4), st.integers(0, 10**6)).map(list)

    def run_case(self, case):
        return H.run(self._run, case, timeout=300)

    async def _run(self, case):
        import asyncio

        n, readers, ntags, salt = case
        viol = []
        early = [0]
        racing = [0]
        async with H.Rig("sql", validators=[], file_db=True) as rig:
            evs = [E.free("%064x" % (salt * 1000 + i + 1), qgen.PUBS[i % 3], 1, E.T0 + i,
                          [["t", "r%d-%d" % (i, j)] for j in range(ntags)] + [["p", qgen.PUBS[4]]], "c%d" % i)
                   for i in range(n)]
            returned = set()

            async def q(f):
                out = []
                async for e in rig.storage.run_single_query([dict(f, limit=50)]):
                    out.append(e.id)
                return out

            async def publisher():
                for ev in evs:
                    await rig.storage.add_event(json.loads(json.dumps(ev)))
                    returned.add(ev["id"])

            async def reader(k):
                for i, ev in enumerate(evs):
                    if i % readers != k:
                        continue
                    for attempt in range(200000):
                        if ev["id"] in await q({"ids": [ev["id"]]}):
                            racing[0] += 1 if attempt else 0
                            break
                        await asyncio.sleep(0)
                    else:
                        raise H.HarnessError("event never became visible")
                    if ev["id"] not in returned:
                        early[0] += 1
                    for f in ({"#t": [ev["tags"][-2][1]]}, {"authors": [ev["pubkey"]], "kinds": [1], "since": ev["created_at"]},
                              {"kinds": [1], "#t": [ev["tags"][0][1]]}, {"#p": [qgen.PUBS[4]], "since": ev["created_at"]}):
                        if ev["id"] not in await q(f):
                            viol.append(V("sql-visible-by-id-not-by:" + "+".join(sorted(k.replace("#t", "#tag").replace("#p", "#tag")
                                                                                      for k in f if k != "since")),
                                          "a stored matching event is returned whichever plan serves the filter",
                                          filter=f, event=ev["id"], before_add_returned=ev["id"] not in returned))
                            return

            await asyncio.gather(publisher(), *[reader(k) for k in range(readers)])
        return Result(viol, racing[0] > 0, ["early-reads:%s" % ("0" if not early[0] else "1+"),
                                            "racing-polls:%s" % ("0" if not racing[0] else "1+")],
                      sample={"case": case, "early_reads": early[0], "events_polled_while_in_flight": racing[0]})


class Bulk(Sub):
    """results far larger than any page or buffer, with many events sharing a timestamp"""

    name = "bulk"
    examples = {"quick": 16, "thorough": 128}
    shards = {"quick": 8, "thorough": 16}
    rule = ("120..1500 stored events over 1 / 3 / 17 / N distinct timestamps, two authors, tags t=a|b; the unlimited internal "
            "query path (run_single_query, limit 600000) asked for kinds / authors+kinds / #t / a time window: every matching "
            "event exactly once; non-trivial = more than 500 events match and at least two of them share a timestamp")

    def strategy(self, tier):
        return st.tuples(st.sampled_from(["kv", "sql"]), st.sampled_from([120, 700, 700, 1003, 1003, 1500]),
                         st.sampled_from([1, 3, 17, 0]), st.integers(0, 3)).map(list)

    def run_case(self, case):
        return H.run(self._run, case, timeout=600)

    async def _run(self, case):
        backend, n, nts, shape = case
        viol = []
        store = [E.free("%064x" % (i + 1), qgen.PUBS[i % 2], 1 if i % 5 else 2, E.T0 + (i % nts if nts else i),
                        [["t", "a" if i % 3 else "b"]], "") for i in range(n)]
        f = [{"kinds": [1]}, {"authors": [qgen.PUBS[0]], "kinds": [1, 2]}, {"#t": ["a"]}, {"since": E.T0 - 1, "until": E.T0 + n + 1}][shape]
        async with H.Rig(backend, validators=[]) as rig:
            for ev in store:
                await rig.add(ev, pump=False) if backend == "kv" else await rig.storage.add_event(dict(ev))
            rig.pump()
            await rig.settle()
            stored = await rig.dump()
            # an explicit limit: without one the filter model defaults to max_limit, which the SQL path honours even here
            got = await rig.query([dict(f, limit=100000)])
            n_must, n_non = check_answer(backend, stored, [f], got, viol, where="run_single_query/bulk")
            del viol[3:]
        ties = len({e["created_at"] for e in store}) < len(store)
        return Result(viol, n_must > 500 and ties, ["backend:" + backend, "matches>500" if n_must > 500 else "matches<=500"],
                      sample={"case": case, "matching": n_must})


def plan_classes(filters):
    from nostr_relay.storage import kv

    out = []
    for p in kv.planner([dict(f) for f in json.loads(json.dumps(filters))]):
        out.append(type(p.index).__name__)
    return out


class ForcedIndex(Sub):
    """LMDB: execute the filter through every single index able to serve it."""

    name = "forced-index"
    examples = {"quick": 1600, "thorough": 12800}
    shards = {"quick": 8, "thorough": 16}
    rule = ("one store x one well-formed filter, executed once per eligible LMDB index "
            "(ids, kinds, authors, author+kind, tags, created_at) via hand-built QueryPlans; "
            "non-trivial = >=2 eligible indexes and a non-empty MUST set")

    def strategy(self, tier):
        return qgen.st_store_and_filters(max_filters=1).filter(lambda c: len(c["filters"]) == 1)

    def run_case(self, case):
        return H.run(self._run, case)

    async def _run(self, case):
        from nostr_relay.storage import kv
        import logging

        f = case["filters"][0]
        viol = []
        labels = []
        if not in_domain([f]):
            return Result([], False, ["out-of-domain"])
        async with H.Rig("kv", validators=[]) as rig:
            for ev in case["store"]:
                await rig.add(ev)
            stored = await rig.dump()
            plans = kv.planner([json.loads(json.dumps(f))], default_limit=100000)
            if not plans:
                return Result([], False, ["no-plan"])
            base = plans[0]
            q = kv.NostrQuery.model_validate(json.loads(json.dumps(f)))
            alts = []
            if q.ids:
                alts.append(("ids", tuple(q.ids)))
            if q.kinds:
                alts.append(("kinds", tuple(q.kinds)))
            if q.authors:
                alts.append(("authors", tuple(q.authors)))
            if q.kinds and q.authors:
                alts.append(("authorkinds", [(a, k) for a in q.authors for k in q.kinds]))
            if q.tags:
                tags = set()
                for name, values in q.tags:
                    for v in values:
                        tags.add((name, v))
                alts.append(("tags", sorted(tags, reverse=True)))
                for name, values in q.tags:
                    alts.append(("tags", sorted(((name, v) for v in values), reverse=True)))
            if q.since or q.until:
                alts.append(("created_at", []))
            n_must = 0
            for name, matches in alts:
                plan = base._replace(index=kv.INDEXES[name], matches=matches, stats={})
                _, events = kv.execute_one_plan(rig.storage.db, plan, logging.getLogger("x"))
                got = [H.ev_to_dict(e) for e in events]
                n_must, _ = check_answer("kv", stored, [f], got, viol, where="index:" + name)
                labels.append("index:" + name)
                if viol:
                    break
        return Result(viol, n_must > 0 and len(alts) >= 2, labels)


# ------------------------------------------------------------------ small scope

SS_PUBS = ["00" * 31 + "01", "ab" * 32]
SS_KINDS = [1, 256]
SS_TS = [E.T0 - 1, E.T0, E.T0 + 1]
SS_TAGS = [None, "a", "ab"]
SS_EVENTS = list(itertools.product(SS_PUBS, SS_KINDS, SS_TS, SS_TAGS))  # 36


def ss_filters():
    opt = lambda vals: [None] + [[v] for v in vals] + [list(vals)]
    out = []
    for a, k, t, s, u in itertools.product(opt(SS_PUBS), opt(SS_KINDS), opt(["a", "ab"]),
                                           [None, E.T0 - 1, E.T0, E.T0 + 1],
                                           [None, E.T0 - 1, E.T0, E.T0 + 1]):
        f = {}
        if a:
            f["authors"] = a
        if k:
            f["kinds"] = k
        if t:
            f["#t"] = t
        if s is not None:
            f["since"] = s
        if u is not None:
            f["until"] = u
        if f:
            out.append(f)
    return out


SS_FILTERS = ss_filters()


def ss_event(spec, i):
    pk, kind, ts, tag = spec
    return E.free(("%02x" % (0x11 * (i + 1))) * 32, pk, kind, ts, [["t", tag]] if tag is not None else [])


class SmallScope(Sub):
    name = "small-scope"
    mode = "enumerate"
    exhaustive = True
    shards = {"quick": 16, "thorough": 16}
    rule = ("exhaustive: every store of <=2 (thorough: <=3) events over 2 pubkeys x 2 kinds x 3 timestamps x "
            "{no tag, t=a, t=ab} against every one of the 1727 filters over authors/kinds/#t/since/until of the same "
            "alphabet; LMDB always, SQL in thorough for <=2 events; one evaluation = one (store, filter) pair; "
            "non-trivial = MUST set non-empty and a stored event does not match")

    def enumerate(self, tier):
        maxn = 2 if tier == "quick" else 3
        for n in range(1, maxn + 1):
            for combo in itertools.combinations(range(len(SS_EVENTS)), n):
                yield {"backend": "kv", "store": list(combo)}
        if tier != "quick":
            for n in (1, 2):
                for combo in itertools.combinations(range(len(SS_EVENTS)), n):
                    yield {"backend": "sql", "store": list(combo)}

    def run_case(self, case):
        return H.run(self._run, case)

    async def _run(self, case):
        backend = case["backend"]
        viol = []
        nt = []
        store = [ss_event(SS_EVENTS[j], i) for i, j in enumerate(case["store"])]
        only = case.get("filter")
        filters = SS_FILTERS if only is None else [only]
        async with H.Rig(backend, validators=[]) as rig:
            for ev in store:
                await rig.add(ev)
            stored = await rig.dump()
            for fi, f in enumerate(filters):
                got = await rig.query([dict(f)])
                n_must, n_non = check_answer(backend, stored, [f], got, viol, where="run_single_query")
                if n_must and n_non:
                    nt.append(jhash([backend, case["store"], f]))
                if viol:
                    viol[0]["detail"]["store"] = store
                    break
        return Result(viol, bool(nt), ["backend:" + backend, "events:%d" % len(store)],
                      sample={"backend": backend, "store": store, "filter_example": filters[min(7, len(filters) - 1)]},
                      evals=len(filters), nt_hashes=nt)


SUBCHECKS = [Complete(), ForcedIndex(), Interleaved(), SqlConcurrent(), Bulk(), SmallScope()]
