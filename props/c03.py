"""
C03 - only authentic events are stored, acknowledged or forwarded.

A valid signed event (all kinds, with and without a valid NIP-26 delegation) is corrupted by 1-3
mutations from a typed catalogue and submitted on every admission path (websocket EVENT, direct
storage.add_event as the bulk loader does, add_service_event) on both backends, with a watcher
connection subscribed to everything.  Oracle = an independent verifier (own canonical serializer,
SHA-256, BIP-340 via coincurve, delegation token check):
  * whatever is acknowledged OK=true must afterwards be stored as an authentic event that equals the
    submission (numeric coercion of kind tolerated), and whatever is pushed must be authentic
  * a submission that is not authentic and was not stored leaves no trace
  * an authentic submission is accepted
"""
import asyncio
import json

from hypothesis import strategies as st

from vlib import events as E
from vlib import harness as H
from vlib.core import Result, Sub, V

LEVEL = "exploration"
RULE = ("valid event + 1-3 typed mutations; non-trivial = the mutant is still an object of EVENT shape that "
        "reaches the validator and differs from a valid event; distinct by hash of the case")
ASSUMPTIONS = ["the harness's canonical serializer is cross-checked against aionostr's on unmutated events "
               "(disagreement = harness error)", "SQLite only; LMDB engine modelled"]

MUTS = ["id-other-hex", "id-of-other-event", "id-upper", "id-mixed", "sig-nibble", "sig-other-key", "sig-upper",
        "pubkey-nibble", "pubkey-other", "pubkey-upper", "content", "created_at", "kind", "tag-elem", "tag-add",
        "ts-string", "ts-float", "ts-bool", "kind-string", "kind-float", "kind-bool", "content-nonstr", "tags-nonlist",
        "tag-nonstr", "extra-key", "missing-key", "deleg-arity", "deleg-forged", "deleg-transplant", "deleg-conditions",
        "deleg-second-forged", "deleg-second-transplant", "none",
        # type-confused fields with the id RECOMPUTED over exactly what is sent and a fresh signature
        "resign-ts-bool", "resign-ts-float", "resign-ts-string", "resign-kind-bool", "resign-kind-float",
        "resign-kind-string", "resign-tag-nonstr", "resign-pubkey-upper",
        # the relay's own (public) service pubkey named as author
        "pubkey-service", "pubkey-service-kind",
        # the id is RECOMPUTED over what is sent (so the hash is right) but the signature is not the author's: garbage, or
        # another key's; alone, or next to a tag shape the signature library may choke on (malformed delegation tags)
        "rehash", "rehash-sig-garbage", "rehash-victim-deleg-arity2", "rehash-victim-deleg-arity3",
        "rehash-victim-deleg-arity5", "rehash-victim-deleg-nonstr", "rehash-victim-deleg-badhex"]


def flip(h, pos=5):
    c = h[pos]
    return h[:pos] + ("0" if c != "0" else "1") + h[pos + 1:]


@st.composite
def st_case(draw):
    k = draw(st.integers(0, 2))
    kind = draw(st.sampled_from([1, 1, 0, 3, 4, 5, 7, 10000, 30000, 20000, 40000]))
    tags = draw(st.sampled_from([[], [["t", "a"]], [["p", E.PKS[1]], ["e", "ab" * 32]], [["d", "x"]]]))
    tags = [list(t) for t in tags]
    deleg = draw(st.booleans())
    if deleg:
        tags.append(E.delegation_tag((k + 1) % 3, E.PKS[k], "kind=%d" % kind))
    ev = E.make(k, kind, E.T0 + draw(st.integers(0, 3)), tags, draw(st.sampled_from(["", "hello", "üñí"])))
    other = E.make((k + 1) % 3, 1, E.T0, [], "other")
    muts = draw(E.weighted((1, st.just([])), (9, st.lists(st.sampled_from(MUTS), min_size=1, max_size=3))))
    prelude = draw(st.sampled_from(["none", "none", "same", "same-nosettle", "same+supersede"]))
    newer = E.make(k, kind, ev["created_at"] + 10, [t for t in tags if t[0] != "delegation"], "newer version")
    return {"backend": draw(st.sampled_from(["kv", "sql"])), "path": draw(st.sampled_from(["ws", "ws", "direct"])),
            "event": ev, "other": other, "muts": muts, "k": k, "prelude": prelude, "newer": newer,
            # the mutant travels on the connection that just had the genuine event accepted
            "same_conn": draw(st.booleans()),
            # seconds the validation job waits for a free worker thread (the signature check runs there)
            "slow": draw(st.sampled_from([None, None, None, 3, 100, 100000]))}


def mutate(case):
    ev = json.loads(json.dumps(case["event"]))
    for m in case["muts"]:
        try:
            ev = _mutate_one(ev, m, case)
        except (KeyError, TypeError, AttributeError, IndexError, ValueError):
            pass  # the mutation does not apply to what earlier mutations left
    return ev


def _mutate_one(ev, m, case):
    k = case["k"]
    other = case["other"]
    for m in [m]:
        if m == "id-other-hex":
            ev["id"] = "ab" * 32
        elif m == "id-of-other-event":
            ev["id"] = other["id"]
        elif m == "id-upper":
            ev["id"] = ev["id"].upper() if isinstance(ev["id"], str) else ev["id"]
        elif m == "id-mixed":
            ev["id"] = ev["id"][:32].upper() + ev["id"][32:] if isinstance(ev["id"], str) else ev["id"]
        elif m == "sig-nibble":
            ev["sig"] = flip(ev["sig"])
        elif m == "sig-other-key":
            ev["sig"] = E.sign_id((k + 1) % 3, case["event"]["id"])
        elif m == "sig-upper":
            ev["sig"] = ev["sig"].upper()
        elif m == "pubkey-nibble":
            ev["pubkey"] = flip(ev["pubkey"])
        elif m == "pubkey-other":
            ev["pubkey"] = E.PKS[(k + 1) % 3]
        elif m == "pubkey-upper":
            ev["pubkey"] = ev["pubkey"].upper()
        elif m == "content":
            ev["content"] = str(ev["content"]) + "!"
        elif m == "created_at" and isinstance(ev["created_at"], int):
            ev["created_at"] = ev["created_at"] + 1
        elif m == "kind" and isinstance(ev["kind"], int) and not isinstance(ev["kind"], bool):
            ev["kind"] = ev["kind"] + 1
        elif m == "tag-elem" and isinstance(ev["tags"], list) and ev["tags"] and isinstance(ev["tags"][0], list) and len(ev["tags"][0]) > 1:
            ev["tags"][0][1] = str(ev["tags"][0][1]) + "x"
        elif m == "tag-add" and isinstance(ev["tags"], list):
            ev["tags"].append(["t", "added"])
        elif m == "ts-string":
            ev["created_at"] = str(ev["created_at"])
        elif m == "ts-float":
            ev["created_at"] = float(ev["created_at"]) if not isinstance(ev["created_at"], str) else ev["created_at"]
        elif m == "ts-bool":
            ev["created_at"] = True
        elif m == "kind-string":
            ev["kind"] = str(ev["kind"])
        elif m == "kind-float":
            ev["kind"] = float(ev["kind"]) if not isinstance(ev["kind"], str) else ev["kind"]
        elif m == "kind-bool":
            ev["kind"] = True
        elif m == "content-nonstr":
            ev["content"] = 5
        elif m == "tags-nonlist":
            ev["tags"] = "tags"
        elif m == "tag-nonstr" and isinstance(ev["tags"], list):
            ev["tags"].append(["t", 1])
        elif m == "extra-key":
            ev["extra"] = 1
        elif m == "missing-key":
            ev.pop("sig", None)
        elif m.startswith("rehash"):
            if "victim" in m:
                victim = E.PKS[(k + 1) % 3]
                ev["pubkey"] = victim
                bad = {"arity2": ["delegation", victim], "arity3": ["delegation", victim, "kind=1"],
                       "arity5": ["delegation", victim, "kind=1", "00" * 64, "x"],
                       "nonstr": ["delegation", victim, 1, None], "badhex": ["delegation", "zz" * 32, "kind=1", "zz" * 64],
                       }[m.rsplit("-", 1)[1]]
                ev["tags"] = [t for t in ev["tags"] if not (isinstance(t, list) and t and t[0] == "delegation")] + [bad]
            ev["id"] = E.compute_id(ev["pubkey"], ev["created_at"], ev["kind"], ev["tags"], ev["content"])
            if m != "rehash":
                ev["sig"] = ("%02x" % (len(ev["content"]) + 7)) * 64
        elif m.startswith("resign-"):
            from aionostr.event import Event

            if m == "resign-ts-bool":
                ev["created_at"] = True
            elif m == "resign-ts-float":
                ev["created_at"] = float(case["event"]["created_at"])
            elif m == "resign-ts-string":
                ev["created_at"] = str(case["event"]["created_at"])
            elif m == "resign-kind-bool":
                ev["kind"] = True
            elif m == "resign-kind-float":
                ev["kind"] = float(case["event"]["kind"])
            elif m == "resign-kind-string":
                ev["kind"] = str(case["event"]["kind"])
            elif m == "resign-tag-nonstr":
                ev["tags"] = list(ev["tags"]) + [["t", 1, True, None]]
            elif m == "resign-pubkey-upper":
                ev["pubkey"] = ev["pubkey"].upper()
            ev["id"] = Event.compute_id(ev["pubkey"], ev["created_at"], ev["kind"], ev["tags"], ev["content"])
            ev["sig"] = E.sign_id(k, ev["id"])
        elif m in ("pubkey-service", "pubkey-service-kind"):
            from coincurve import PrivateKey
            from vlib import bootstrap

            ev["pubkey"] = PrivateKey(bytes.fromhex(bootstrap.SERVICE_SK)).public_key_xonly.format().hex()
            if m == "pubkey-service-kind":
                ev["kind"] = 31494
                ev["tags"] = [["d", "auth:" + E.PKS[k]], ["t", "auth"], ["p", E.PKS[k]]]
                ev["content"] = "s"
        elif m in ("deleg-second-forged", "deleg-second-transplant") and isinstance(ev["tags"], list):
            # a genuine delegation tag FIRST, then a forged / transplanted one naming a victim
            genuine = E.delegation_tag((k + 1) % 3, ev["pubkey"], "kind=%s" % ev["kind"])
            if m == "deleg-second-forged":
                bad = E.delegation_tag((k + 2) % 3, ev["pubkey"], "kind=%s" % ev["kind"])
                bad[3] = flip(bad[3])
            else:
                bad = E.delegation_tag((k + 2) % 3, E.PKS[(k + 1) % 3], "kind=%s" % ev["kind"])
            ev["tags"] = [t for t in ev["tags"] if not (isinstance(t, list) and t and t[0] == "delegation")] + [genuine, bad]
            # the event is re-signed: everything about it is authentic except the second delegation tag
            ev["id"] = E.compute_id(ev["pubkey"], ev["created_at"], ev["kind"], ev["tags"], ev["content"])
            ev["sig"] = E.sign_id(k, ev["id"])
        elif m.startswith("deleg") and isinstance(ev["tags"], list):
            d = [t for t in ev["tags"] if isinstance(t, list) and t and t[0] == "delegation"]
            if not d:
                d = [E.delegation_tag((k + 1) % 3, ev["pubkey"] if isinstance(ev["pubkey"], str) else E.PKS[k], "kind=1")]
                ev["tags"].append(d[0])
            t = d[0]
            if m == "deleg-arity":
                t.pop()
            elif m == "deleg-forged" and len(t) == 4:
                t[3] = flip(t[3])
            elif m == "deleg-transplant" and len(t) == 4:
                # a delegation signed for ANOTHER delegatee
                t[:] = E.delegation_tag((k + 1) % 3, E.PKS[(k + 2) % 3], t[2])
            elif m == "deleg-conditions" and len(t) == 4:
                t[2] = t[2] + "&created_at<1"
    return ev


def resign(ev, k):
    """mutations of content fields WITH a fresh id and signature: an authentic different event"""
    return ev


class Authentic(Sub):
    name = "authentic"
    examples = {"quick": 3000, "thorough": 24000}
    shards = {"quick": 12, "thorough": 16}
    rule = RULE

    def strategy(self, tier):
        return st_case()

    def run_case(self, case):
        return H.run(self._run, case)

    async def _run(self, case):
        from aionostr.event import Event

        backend = case["backend"]
        viol = []
        labels = ["backend:" + backend, "path:" + case["path"]]
        base = case["event"]
        if Event.compute_id(base["pubkey"], base["created_at"], base["kind"], base["tags"], base["content"]) != base["id"]:
            raise H.HarnessError("harness canonical serializer disagrees with aionostr on an unmutated event")
        ev = mutate(case)
        auth, why = E.authentic(ev)
        labels.append("authentic" if auth else "inauthentic")
        for m in case["muts"]:
            labels.append("mut:" + m)
        from vlib import bootstrap

        async with H.Rig(backend, config={"service_privatekey": bootstrap.SERVICE_SK}) as rig:
            w = rig.conn("10.0.0.9")
            await w.send(["REQ", "w", {"since": 1}])
            # prelude: the genuine event is known to the relay first (accepted; maybe ephemeral, superseded,
            # or still in the writer queue when the mutant arrives)
            pre = case.get("prelude", "none")
            labels.append("prelude:" + pre)
            c0 = rig.conn("10.0.0.7")
            nosettle = None
            if pre in ("same", "same+supersede"):
                await c0.send(["EVENT", base])
                if pre == "same+supersede":
                    await c0.send(["EVENT", case["newer"]])
            elif pre == "same-nosettle" and case["path"] == "ws":
                nosettle = base
            before = await rig.dump()
            nw = len(w.out)
            if nosettle is not None:
                before = dict(before)
                before[base["id"]] = base  # will be stored legitimately
            ok = None
            if case["path"] == "ws":
                same_conn = case.get("same_conn") and pre in ("same", "same+supersede")
                if same_conn:
                    labels.append("same-connection-after-accepted")
                c = c0 if same_conn else rig.conn("10.0.0.1")
                if nosettle is not None:
                    c0.feed(["EVENT", nosettle])
                    for _ in range(4):
                        await asyncio.sleep(0)
                if case.get("slow"):
                    labels.append("validation-waits-for-a-worker-thread")
                    fr = [json.loads(x) for x in await H.send_while_workers_busy(rig, c, ["EVENT", ev], case["slow"])]
                else:
                    fr = [json.loads(x) for x in await c.send(["EVENT", ev])]
                oks = [f for f in fr if f[0] == "OK"]
                if len(oks) != 1 and c.closed is None:
                    viol.append(V("ok-count", "one OK per EVENT", frames=fr))
                ok = bool(oks and oks[0][2] is True)
                await c.disconnect()
            else:
                ok, reason = await rig.add(ev)
            after = await rig.dump()
            new = {i: e for i, e in after.items() if i not in before}
            for f in w.frames(nw):
                if f[0] == "<INVALID-FRAME>":
                    viol.append(V("%s-pushed-frame-not-json" % backend, "only authentic events are forwarded (the pushed frame is not even JSON)",
                                  muts=case["muts"], raw=f[1]))
            pushed = [f[2] for f in w.frames(nw) if f[0] == "EVENT"]
            if pre != "none":
                # pushes of the genuine prelude event itself are legitimate
                pushed = [p for p in pushed if p != base]
            for i, e in new.items():
                a2, why2 = E.authentic(e)
                if not a2:
                    viol.append(V("%s-inauthentic-stored:%s" % (backend, klass(why2)), "only authentic events are stored",
                                  backend=backend, path=case["path"], muts=case["muts"], stored=e, why=why2))
                elif not same(e, ev):
                    viol.append(V("%s-stored-differs-from-submission" % backend, "the stored event is the submitted one",
                                  muts=case["muts"], stored=e, submitted=ev))
            for e in pushed:
                a2, why2 = E.authentic(e)
                if not a2:
                    viol.append(V("%s-inauthentic-pushed:%s" % (backend, klass(why2)), "only authentic events are forwarded",
                                  backend=backend, muts=case["muts"], pushed=e, why=why2))
            if ok and not new and not (_eph(ev.get("kind")) and pushed) and not (pre != "none" and (ev == base or same(base, ev))):
                viol.append(V("%s-ok-true-nothing-stored" % backend, "OK true means stored (or ephemeral and pushed)",
                              muts=case["muts"], event=ev))
            if ok and not auth and not new and pushed:
                pass  # covered by inauthentic-pushed
            if not ok and (new or pushed) and not (pre != "none" and (ev == base or same(base, ev))):
                viol.append(V("%s-refused-but-stored-or-pushed" % backend, "a refused event leaves no trace",
                              muts=case["muts"], stored=list(new), pushed=len(pushed)))
            if auth and not ok and pre == "none" and set(ev) == {"id", "pubkey", "created_at", "kind", "tags", "content", "sig"}:
                viol.append(V("%s-authentic-refused" % backend, "an authentic event is accepted", event=ev, muts=case["muts"]))
            await w.disconnect()
        nt = isinstance(ev, dict) and ev != base
        return Result(viol, nt, labels)


def _eph(kind):
    try:
        return 20000 <= int(kind) < 30000
    except (TypeError, ValueError):
        return False


def same(stored, sub):
    try:
        for k in ("id", "pubkey", "sig", "content", "created_at"):
            if stored[k] != sub[k] or type(stored[k]) is not type(sub[k]):
                return False
        if json.dumps(stored["tags"]) != json.dumps(sub["tags"]):
            return False
        return stored["kind"] == sub["kind"] or str(stored["kind"]) == str(sub["kind"]) or float(stored["kind"]) == float(sub["kind"])
    except Exception:
        return False


def klass(why):
    for key in ("id is not the hash", "bad signature", "not lowercase hex", "not integers", "delegation", "content", "tags"):
        if key in why:
            return key.replace(" ", "-")
    return "other"


class ServiceEvents(Sub):
    name = "service-events"
    examples = {"quick": 300, "thorough": 2400}
    shards = {"quick": 4, "thorough": 8}
    rule = "add_service_event with generated content/tags/kind; non-trivial = tags given as dict or encrypt=True"

    def strategy(self, tier):
        return st.tuples(st.sampled_from(["kv", "sql"]), st.text(max_size=30),
                         st.one_of(st.none(), st.dictionaries(st.sampled_from(["t", "d", "p", "n"]), st.text(max_size=8), max_size=3),
                                   st.lists(st.lists(st.text(max_size=5), min_size=1, max_size=3), max_size=3)),
                         st.sampled_from([None, 31494, 1, 30000]), st.booleans()).map(list)

    def run_case(self, case):
        return H.run(self._run, case)

    async def _run(self, case):
        from vlib import bootstrap

        backend, content, tags, kind, encrypt = case
        viol = []
        async with H.Rig(backend, config={"service_privatekey": bootstrap.SERVICE_SK}) as rig:
            try:
                await rig.storage.add_service_event(content=content, tags=tags, kind=kind, encrypt=encrypt)
            except Exception as e:
                return Result([], False, ["raised:" + type(e).__name__])
            rig.pump()
            await rig.settle()
            for e in (await rig.dump()).values():
                a, why = E.authentic(e)
                if not a:
                    viol.append(V("%s-inauthentic-service-event" % backend, "internal service events are authentic too",
                                  stored=e, why=why))
        return Result(viol, isinstance(tags, dict) or encrypt, ["backend:" + backend])


class Twins(Sub):
    """a forged copy (same id) and the genuine event are being validated at the same time on two connections"""

    name = "twins"
    examples = {"quick": 300, "thorough": 2400}
    shards = {"quick": 6, "thorough": 12}
    rule = ("genuine event E and a copy with E's id but another signature / content / pubkey / tags are fed on two connections "
            "in a drawn order while the validation jobs wait for a worker thread, then the jobs run in a drawn order; oracle: E "
            "is acknowledged OK true, stored as sent and pushed once; the copy is refused; non-trivial = always (both in flight)")

    def strategy(self, tier):
        return st.tuples(st.sampled_from(["kv", "sql"]), st.integers(0, 2), st.sampled_from([1, 1, 30000, 20000]),
                         st.sampled_from(["sig-nibble", "sig-other-key", "content", "pubkey-other", "tag-add", "created_at"]),
                         st.booleans(), st.booleans()).map(list)

    def run_case(self, case):
        return H.run(self._run, case)

    async def _run(self, case):
        backend, k, kind, mut, forged_first, release_forged_first = case
        viol = []
        base = E.make(k, kind, E.T0, [["d", "x"]] if kind == 30000 else [["t", "a"]], "genuine")
        other = E.make((k + 1) % 3, 1, E.T0, [], "other")
        forged = _mutate_one(json.loads(json.dumps(base)), mut, {"k": k, "other": other, "event": base})
        if forged["id"] != base["id"] or E.authentic(forged)[0]:
            raise H.HarnessError("twin is not a forged copy with the same id")
        async with H.Rig(backend) as rig:
            w = rig.conn("10.0.0.9")
            await w.send(["REQ", "w", {"since": 1}])
            a, b = rig.conn("10.0.0.1"), rig.conn("10.0.0.2")
            vexec = asyncio.get_running_loop().inline_executor
            vexec.park = True
            first, second = (b, a) if forged_first else (a, b)
            first.feed(["EVENT", forged if forged_first else base], 0)
            for _ in range(6):
                await asyncio.sleep(0)
            second.feed(["EVENT", base if forged_first else forged], 0)
            for _ in range(6):
                await asyncio.sleep(0)
            vexec.park = False
            n_jobs = len(vexec.parked)
            forged_idx = 0 if forged_first else 1
            if n_jobs >= 2 and not release_forged_first:
                forged_idx_now = forged_idx
                vexec.release(1 - forged_idx_now)
                for _ in range(6):
                    await asyncio.sleep(0)
            vexec.release_all()
            await rig.settle()
            fa = [f for f in a.frames() if f[0] == "OK"]
            fb = [f for f in b.frames() if f[0] == "OK"]
            stored = await rig.dump()
            if not (fa and fa[0][2] is True):
                viol.append(V("%s-genuine-refused-while-forged-twin-in-flight" % backend,
                              "an authentic event is accepted whatever else is being validated", ok=fa[:1], mutation=mut, case=case,
                              validation_jobs=n_jobs))
            if fb and fb[0][2] is True:
                viol.append(V("%s-forged-twin-acknowledged" % backend, "only authentic events are acknowledged", ok=fb[:1], mutation=mut))
            if not R_is_ephemeral(kind):
                got = stored.get(base["id"])
                if not viol and (got is None or not same(got, base)):
                    viol.append(V("%s-stored-differs-from-genuine" % backend, "only authentic events are stored", stored=got, mutation=mut))
            pushed = [f[2] for f in w.frames() if f[0] == "EVENT" and f[2].get("id") == base["id"]]
            for p_ in pushed:
                if not E.authentic(p_)[0]:
                    viol.append(V("%s-inauthentic-pushed:twin" % backend, "only authentic events are forwarded", mutation=mut))
            for c in (a, b, w):
                if not c.task.done():
                    await c.disconnect()
        return Result(viol[:2], True, ["backend:" + backend, "mut:" + mut, "jobs:%d" % n_jobs])


def R_is_ephemeral(kind):
    return 20000 <= kind < 30000


LOAD_CONF = """
storage:
  sqlalchemy.url: sqlite+aiosqlite:///%(db)s
%(validators)s
logging:
  version: 1
  root:
    level: CRITICAL
"""
LOAD_VALIDATORS = {
    "absent": "",   # the documented default applies: [is_signed]
    "shipped": "  validators:\n    - nostr_relay.validators.is_not_too_large\n    - nostr_relay.validators.is_signed\n"
               "    - nostr_relay.validators.is_recent\n    - nostr_relay.validators.is_not_hellthread\n",
    "signed-only": "  validators:\n    - nostr_relay.validators.is_signed\n",
    "signed-last": "  validators:\n    - nostr_relay.validators.is_not_hellthread\n    - nostr_relay.validators.is_signed\n",
}


class BulkLoad(Sub):
    """The `nostr-relay load` command (cli.py) fed a dump that mixes genuine events with mutants from the catalogue, under
    storage configurations with and without a validators entry; afterwards the sqlite file is read below the relay and
    every row must be authentic and equal to a submitted line. One child process per case (the command owns Config)."""
    name = "bulk-load"
    examples = {"quick": 64, "thorough": 512}
    shards = {"quick": 8, "thorough": 16}
    rule = "non-trivial = the dump holds at least one inauthentic mutant and at least one genuine event; SQL (sqlite file) only"

    def strategy(self, tier):
        return st.fixed_dictionaries({
            "validators": st.sampled_from(sorted(LOAD_VALIDATORS)),
            "wrap": st.lists(st.booleans(), min_size=6, max_size=6),
            "cases": st.lists(st_case(), min_size=1, max_size=5)})

    def run_case(self, case):
        import os
        import shutil
        import sqlite3
        import subprocess
        import sys
        import tempfile
        from vlib import bootstrap

        lines, forged, genuine = [], 0, 0
        for i, c in enumerate(case["cases"]):
            ev = mutate(c)
            lines.append(ev)
            ok = isinstance(ev, dict) and E.authentic(ev)[0]
            forged += 0 if ok else 1
            genuine += 1 if ok else 0
            if i % 2 == 0:
                lines.append(c["other"])
                genuine += 1
        tmp = tempfile.mkdtemp(prefix="load-", dir=os.environ.get("VERIF_TMP") or None)
        viol = []
        try:
            db = os.path.join(tmp, "relay.sqlite3")
            conf = os.path.join(tmp, "conf.yaml")
            dump = os.path.join(tmp, "dump.jsonl")
            with open(conf, "w") as fp:
                fp.write(LOAD_CONF % {"db": db, "validators": LOAD_VALIDATORS[case["validators"]]})
            with open(dump, "w") as fp:
                for i, ev in enumerate(lines):
                    fp.write(json.dumps(["EVENT", ev] if case["wrap"][i % 6] else ev) + "\n")
            env = dict(os.environ, VERIF_REPO=bootstrap.REPO, PYTHONDONTWRITEBYTECODE="1", PYTHONPATH=bootstrap.VERIF)
            proc = subprocess.run([sys.executable, "-m", "vlib.loadchild", conf, dump], cwd=bootstrap.VERIF, env=env,
                                  capture_output=True, text=True, timeout=300)
            rows = []
            if os.path.exists(db):
                con = sqlite3.connect(db)
                try:
                    rows = con.execute("SELECT id, created_at, kind, pubkey, tags, sig, content FROM events").fetchall()
                finally:
                    con.close()
            stored = []
            for r in rows:
                tags = json.loads(r[4]) if isinstance(r[4], str) else r[4]
                stored.append({"id": r[0].hex() if isinstance(r[0], bytes) else r[0], "created_at": r[1], "kind": r[2],
                               "pubkey": r[3].hex() if isinstance(r[3], bytes) else r[3], "tags": tags,
                               "sig": r[5].hex() if isinstance(r[5], bytes) else r[5], "content": r[6]})
            for sev in stored:
                ok, why = E.authentic(sev)
                if not ok:
                    viol.append(V("sql-bulk-load-inauthentic-stored:%s" % klass(why), "only authentic events are stored",
                                  validators=case["validators"], stored=sev, why=why))
                    break
                if not any(isinstance(x, dict) and same(sev, x) for x in lines):
                    viol.append(V("sql-bulk-load-stored-differs-from-submitted", "what is stored equals what was submitted",
                                  validators=case["validators"], stored=sev))
                    break
            labels = ["validators:" + case["validators"], "child-rc:%d" % proc.returncode, "stored:%d" % min(len(stored), 3)]
        finally:
            shutil.rmtree(tmp, ignore_errors=True)
        return Result(viol, bool(forged and genuine), labels)


SUBCHECKS = [Authentic(), ServiceEvents(), Twins(), BulkLoad()]
