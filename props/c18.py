"""
C18 - rate limits bound admitted messages per window and do not over-block.

The real RateLimiter under an injected clock.  Oracles are stated over the limiter's own
decisions (no second implementation decides admission):
  safety        for every applicable rule (n per I), among the messages it ADMITTED no half-open
                window (t-I, t] holds more than n
  no-overblock  a refusal at t implies some applicable rule already has >= n admitted messages
                of that type within (t-I, t]
  override      a rule keyed by the exact address replaces global and ip rules for that address
  exempt        n = -1 never refuses
  bounded       every per-scope history holds at most max(n)+1 timestamps at any time, and after
                cleanup() only addresses active within the largest interval keep an entry
Sub-checks: exhaustive small scope, random long runs (sustained traffic, IPv4 + IPv6), rule parser.
"""
import itertools

from hypothesis import strategies as st

from vlib import harness as H  # noqa: F401  (bootstrap)
from vlib.core import Result, Sub, V, jhash

LEVEL = "exploration"
RULE = ("arrival sequences of (time step, address, command) against rule configurations; non-trivial = at "
        "least one refusal and at least one admission after a refusal; distinct by hash of (config, sequence)")
ASSUMPTIONS = ["clock injected by replacing RateLimiter._timestamp; time steps are dyadic rationals so float "
               "comparisons are exact; windows are half-open (t-I, t]"]

INTERVALS = {"s": 1, "second": 1, "sec": 1, "m": 60, "minute": 60, "min": 60, "h": 3600, "hour": 3600, "hr": 3600}
A4 = ["10.0.0.1", "10.0.0.2"]
A6 = ["::1", "2001:db8::1"]


def parse_ref(option):
    """reference parse of 'n/interval,n/interval' -> list of (interval, n)"""
    out = []
    for rule in option.split(","):
        if not rule:
            continue
        parts = rule.split("/")
        if len(parts) != 2:
            continue
        out.append((INTERVALS[parts[1].lower()], int(parts[0])))
    return out


def applicable(cfg, addr, cmd):
    """[(scope key, [(I, n)])] per the property: exact-address rules override generic ones"""
    if addr in cfg and cmd in cfg[addr]:
        return [(("addr", addr), parse_ref(cfg[addr][cmd]))]
    out = []
    if cmd in cfg.get("global", {}):
        out.append((("global",), parse_ref(cfg["global"][cmd])))
    if cmd in cfg.get("ip", {}):
        out.append((("ip", addr), parse_ref(cfg["ip"][cmd])))
    return out


def run_sequence(cfg, seq, check_bound=True):
    """returns (violations, n_refused, admitted_after_refusal)"""
    from nostr_relay.rate_limiter import RateLimiter

    now = [0.0]
    rl = RateLimiter(cfg)
    rl._timestamp = lambda: now[0]
    admitted = {}
    viol = []
    refused = 0
    after = False
    max_n = {}
    for step, (dt, addr, cmd) in enumerate(seq):
        now[0] += dt
        t = now[0]
        if cmd == "CLEANUP":
            try:
                rl.cleanup()  # what web.start_client does (unguarded, in its finally block) whenever any connection ends
            except Exception as e:
                viol.append(V("limiter-raised:cleanup", "the limiter decides or tidies up, it never raises into the connection handler",
                              cfg=cfg, step=step, exc=repr(e)[:200], seq=seq[:step + 1]))
                break
            continue
        try:
            limited = rl.is_limited(addr, [cmd])
        except Exception as e:
            viol.append(V("limiter-raised:is_limited", "the limiter decides or tidies up, it never raises into the connection handler",
                          cfg=cfg, step=step, exc=repr(e)[:200], seq=seq[:step + 1]))
            break
        scopes = applicable(cfg, addr, cmd)
        if limited:
            refused += 1
            justified = False
            for key, rules in scopes:
                hist = admitted.get((key, cmd), [])
                for I, n in rules:
                    if n >= 0 and sum(1 for x in hist if t - x < I) >= n:
                        justified = True
            if not justified:
                viol.append(V("overblock:%s" % cls(cfg, addr, cmd), "a refusal needs a rule that already passed n messages",
                              cfg=cfg, step=step, seq=seq[:step + 1]))
        else:
            if refused:
                after = True
            for key, rules in scopes:
                hist = admitted.setdefault((key, cmd), [])
                hist.append(t)
                for I, n in rules:
                    if n >= 0 and sum(1 for x in hist if t - x < I) > n:
                        viol.append(V("window-exceeded:%s" % cls(cfg, addr, cmd), "no window holds more than n admitted messages",
                                      cfg=cfg, step=step, rule=[I, n], seq=seq[:step + 1]))
        if check_bound:
            allowed = 1 + max([max(n, 0) for scope in cfg.values() for r in scope.values() for _, n in parse_ref(r)] or [0])
            for k, cmds in rl.recent_commands.items():
                for c, dq in cmds.items():
                    if len(dq) > allowed:
                        viol.append(V("unbounded-history:%s" % ("exempt" if allowed == 1 else "sustained"),
                                      "per-scope state stays bounded by the configured rates",
                                      cfg=cfg, step=step, size=len(dq), allowed=allowed))
        if viol:
            break
    return viol, refused, after, rl, now


def cls(cfg, addr, cmd):
    parts = []
    if addr in cfg and cmd in cfg[addr]:
        parts.append("specific" + ("-v6" if ":" in addr else ""))
    else:
        if cmd in cfg.get("global", {}):
            parts.append("global")
        if cmd in cfg.get("ip", {}):
            parts.append("ip" + ("-v6" if ":" in addr and "global" not in parts else ""))
    return "+".join(parts) or "none"


RULESETS = ["1/s", "2/s", "3/m", "2/s,3/m", "-1/s", "1/s,3/sec", "3/s,1/s"]  # incl. two rules for ONE window, looser last / first
STEPS = [0, 0.5, 1, 30, 60, 61]


def configs():
    out = []
    for r in RULESETS:
        out.append({"global": {"EVENT": r}})
        out.append({"ip": {"EVENT": r}})
        out.append({"global": {"EVENT": r}, "ip": {"EVENT": "2/s"}})
        out.append({"global": {"EVENT": "2/s"}, A4[0]: {"EVENT": r}})
        out.append({"ip": {"EVENT": "1/s"}, A4[0]: {"EVENT": r}})
    return out


class SmallScope(Sub):
    name = "small-scope"
    mode = "enumerate"
    exhaustive = True
    shards = {"quick": 16, "thorough": 16}
    rule = ("exhaustive: 25 rule configurations (rule sets {1/s,2/s,3/m,2/s+3/m,-1/s} x scopes global/ip/global+ip/"
            "specific+global/specific+ip) x every arrival sequence of length <=4 (thorough <=6) over time steps "
            "{0,0.5,1,30,60,61} x 2 addresses; one evaluation = one (config, sequence)")

    def enumerate(self, tier):
        maxlen = 4 if tier == "quick" else 6
        alphabet = [(dt, a) for dt in STEPS for a in A4]
        # batch by (config index, first two symbols) to keep cases small
        for ci in range(len(configs())):
            for head in itertools.product(range(len(alphabet)), repeat=2):
                yield {"cfg": ci, "head": list(head), "maxlen": maxlen}

    def run_case(self, case):
        cfg = configs()[case["cfg"]]
        alphabet = [(dt, a) for dt in STEPS for a in A4]
        head = [alphabet[i] for i in case["head"]]
        viol = []
        nt = []
        evals = 0
        only = case.get("tail")
        tails = [only] if only is not None else [
            list(t) for n in range(0, case["maxlen"] - 1) for t in itertools.product(range(len(alphabet)), repeat=n)]
        for tail in tails:
            seq = [(dt, a, "EVENT") for dt, a in head + [alphabet[i] for i in tail]]
            v, refused, after, _, _ = run_sequence(cfg, seq)
            evals += 1
            if refused and after:
                nt.append(jhash([case["cfg"], case["head"], tail]))
            if v:
                v[0]["detail"]["tail"] = tail
                viol = v
                break
        return Result(viol, bool(nt), ["cfg:%d" % case["cfg"]], sample={"cfg": cfg, "example_seq": seq},
                      evals=evals, nt_hashes=nt)


@st.composite
def st_long(draw):
    rules = st.sampled_from(["1/s", "2/s", "5/s", "3/m", "10/m", "2/s,3/m", "5/s,20/m,100/h", "-1/s",
                             "1/s,3/sec", "2/min,5/minute,100/h", "4/s,2/s", "-1/s,5/min"])
    cfg = {}
    addrs = draw(st.sampled_from([A4, A6, A4 + A6]))
    if draw(st.booleans()):
        cfg["global"] = {"EVENT": draw(rules)}
    if draw(st.booleans()) or not cfg:
        cfg["ip"] = {"EVENT": draw(rules)}
        if draw(st.booleans()):
            cfg["ip"]["REQ"] = draw(rules)
    if draw(st.booleans()):
        cfg[draw(st.sampled_from(addrs))] = {"EVENT": draw(rules)}
    mode = draw(st.sampled_from(["random", "sustained", "burst"]))
    n = draw(st.integers(20, 400))
    seq = []
    if mode == "sustained":
        step = draw(st.sampled_from([0.25, 0.5, 1, 2]))
        a = draw(st.sampled_from(addrs))
        seq = [(step, a, "EVENT")] * n
        for i in draw(st.lists(st.integers(0, n - 1), max_size=6)):
            seq[i] = (draw(st.sampled_from([0.125, 0.25, 0.5])), a, "CLEANUP")  # another connection closes meanwhile
    else:
        for _ in range(n):
            seq.append((draw(st.sampled_from([0, 0, 0.125, 0.5, 1, 1, 2, 30, 61, 3601])),
                        draw(st.sampled_from(addrs)), draw(st.sampled_from(["EVENT", "EVENT", "EVENT", "REQ", "CLEANUP"]))))
    return {"cfg": cfg, "seq": [list(x) for x in seq]}


class LongRuns(Sub):
    name = "long-runs"
    examples = {"quick": 1600, "thorough": 12800}
    shards = {"quick": 8, "thorough": 16}
    rule = RULE + "; 20-400 arrivals incl. sustained traffic, IPv4 and IPv6, 1-3 rules per command"

    def strategy(self, tier):
        return st_long()

    def run_case(self, case):
        cfg = case["cfg"]
        seq = [tuple(x) for x in case["seq"]]
        viol, refused, after, rl, now = run_sequence(cfg, seq)
        labels = []
        if any(":" in a for _, a, _ in seq):
            labels.append("ipv6")
        if not viol:
            # idle past every interval, then cleanup: nothing but global may remain
            now[0] += 4000
            rl.cleanup()
            left = [k for k in rl.recent_commands if k != "global"]
            if "ip" in cfg and left:
                viol.append(V("cleanup-leaves-idle-addresses", "idle per-address state is dropped on cleanup",
                              cfg=cfg, left=len(left)))
        return Result(viol, bool(refused and after), labels)


class Parser(Sub):
    name = "parser"
    examples = {"quick": 1500, "thorough": 12000}
    shards = {"quick": 2, "thorough": 4}
    rule = "rule strings from a grammar (all interval spellings, case, empty items) vs a reference parse; non-trivial = >=2 rules"

    def strategy(self, tier):
        item = st.tuples(st.integers(-1, 500), st.sampled_from(list(INTERVALS) + ["S", "Min", "HOUR"])).map(
            lambda t: "%d/%s" % t)
        return st.lists(st.one_of(item, st.just("")), min_size=1, max_size=4).map(",".join)

    def run_case(self, case):
        from nostr_relay.rate_limiter import RateLimiter

        rl = RateLimiter({})
        got = rl.parse_option(case)
        want = parse_ref(case)
        viol = []
        # the rule SET is what matters: a duplicate of an identical rule changes nothing, its order neither
        if {tuple(x) for x in got} != {tuple(x) for x in want}:
            viol.append(V("parser-mismatch", "rule strings parse to (interval, n) pairs", option=case, got=got, want=want))
        return Result(viol, len(want) >= 2, [])


class WebConcurrent(Sub):
    """the limiter as the connection handler uses it: several connections under one rule, messages in flight at once"""

    name = "web-concurrent"
    examples = {"quick": 120, "thorough": 960}
    shards = {"quick": 6, "thorough": 12}
    rule = ("k = 2..6 connections from one address (or several, under a global rule) with a shared RateLimiter 'n/h' send one "
            "EVENT or REQ each while the handling of the earlier ones is still in flight (validation jobs wait for a worker "
            "thread / LMDB query jobs are held back), then everything is let go; oracle: at most n of the k messages are "
            "admitted (the others are answered rate-limited); non-trivial = k > n")

    def strategy(self, tier):
        return st.tuples(st.sampled_from(["kv", "sql"]), st.integers(2, 6), st.integers(1, 3), st.sampled_from(["ip", "global"]),
                         st.sampled_from(["EVENT", "EVENT", "REQ"]), st.booleans()).map(list)

    def run_case(self, case):
        return H.run(self._run, case)

    async def _run(self, case):
        import asyncio
        import json

        from nostr_relay.rate_limiter import RateLimiter
        from vlib import events as E

        backend, k, n, scope, cmd, in_flight = case
        viol = []
        async with H.Rig(backend, file_db=True if backend == "sql" else None) as rig:
            rl = RateLimiter({scope: {cmd: "%d/h" % n}})
            conns = [rig.conn("10.0.0.1" if scope == "ip" else "10.0.0.%d" % (i + 1), rate_limiter=rl) for i in range(k)]
            await rig.settle()
            vexec = asyncio.get_running_loop().inline_executor
            pool = rig.storage.query_pool if backend == "kv" else None
            if in_flight:
                vexec.park = True
                if pool is not None:
                    pool.park = True
                else:
                    await rig.hold_query_slots()
            for i, c in enumerate(conns):
                if cmd == "EVENT":
                    c.feed(["EVENT", E.make(i % 3, 1, E.T0 + i, [], "m%d" % i)], 0)
                else:
                    c.feed(["REQ", "s", {"kinds": [1]}], 0)
                for _ in range(4):
                    await asyncio.sleep(0)
            vexec.park = False
            vexec.release_all()
            if pool is not None:
                pool.park = False
                pool.release_all()
            rig.release_query_slots()
            await rig.settle()
            admitted = 0
            for c in conns:
                fr = c.frames()
                limited = any((f[0] == "OK" and "rate-limited" in str(f[3])) or (f[0] == "NOTICE" and "rate-limited" in str(f[1])) for f in fr)
                if not limited:
                    admitted += 1
            if admitted > n:
                viol.append(V("window-exceeded:web:%s" % scope, "no window holds more than n admitted messages",
                              admitted=admitted, n=n, connections=k, command=cmd, in_flight=in_flight))
            if admitted < min(n, k):
                viol.append(V("overblock:web:%s" % scope, "a refusal needs a rule that already passed n messages",
                              admitted=admitted, n=n, connections=k, command=cmd))
            for c in conns:
                if not c.task.done():
                    c.feed(None)
            await rig.settle()
        return Result(viol, k > n, ["backend:" + backend, "scope:" + scope, "cmd:" + cmd, "in-flight" if in_flight else "one-by-one"])


SUBCHECKS = [SmallScope(), LongRuns(), Parser(), WebConcurrent()]
