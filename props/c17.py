"""
C17 - garbage collection removes expired and ephemeral events and nothing else.

Generated stores mixing kinds {1, 19999, 20000, 25000, 29999, 30000} with expiration tags
around the injected clock T (T-1, T, T+1, 9/10/11-digit values, malformed spellings, two tags),
one collector pass of the backend's own collector, then:
  MUST be gone   : ephemeral kinds; a single well-formed (digits-only string) expiration < T
  MUST remain    : no expiration tag; well-formed expiration > T; malformed expiration
  MAY            : expiration == T; integer-typed values; several expiration tags
  index hygiene  : LMDB keyspace equals keys regenerated from records; SQL has no orphan tag rows
  ephemeral      : pushed live to a watcher on arrival, returned by no query after the pass
"""
from hypothesis import strategies as st

from vlib import events as E
from vlib import harness as H
from vlib.core import Result, Sub, V

LEVEL = "exploration"
RULE = ("stores of 2-10 events x clock T; non-trivial = the store holds an event that must go and one that must "
        "stay which differ only by the kind boundary or by an expiration within 1 s of T (or digit count); "
        "distinct by hash of the case")
ASSUMPTIONS = ["clock injected through the collectors' module-level time(); SQLite only; LMDB engine modelled",
               "LMDB never stores ephemeral events, so 'ephemeral removed' is exercised on SQL and 'not queryable' on both"]

KINDS = [1, 1, 19999, 20000, 25000, 29999, 30000, 0, 3, 10002]  # replaceable kinds get one author per event
CLOCKS = [1_700_000_000, 1_699_999_999, 1_700_000_001, 1_999_999_999, 1_000_000_000, 1_234_567_890]


def exp_values(T):
    return [str(T - 1), str(T), str(T + 1), str(T - 1000), str(T + 1000), "9" * 9, "1" + "0" * 10, "2" * 11,
            "999999999", "", "abc", "12abc", " 5", "1e9", "-1", str(T - 1) + " ", "0" + str(T - 1), T - 1, T + 1]


@st.composite
def st_case(draw):
    T = draw(st.sampled_from(CLOCKS))
    n = draw(st.integers(2, 10))
    evs = []
    for i in range(n):
        kind = draw(st.sampled_from(KINDS))
        tags = []
        k = draw(st.integers(0, 9))
        if k >= 3:
            tags.append(["expiration", draw(st.sampled_from(exp_values(T)))])
        if k == 9:
            tags.append(["expiration", draw(st.sampled_from(exp_values(T)))])
        if draw(st.booleans()):
            tags.insert(0, ["t", "a"])
        evs.append(E.free(("%02x" % (i + 1)) * 32, E.ADJ_HEX[3] if kind not in (0, 3, 10002) else ("%02x" % (0x41 + i)) * 32,
                          kind, T - 50 + i, tags))
        if kind == 30000:
            evs[-1]["tags"].append(["d", str(i)])
    # further passes of the SAME collector, each preceded by re-submissions of earlier events
    more = []
    for _ in range(draw(st.sampled_from([0, 0, 1, 2]))):
        more.append({"dt": draw(st.sampled_from([0, 1, 5])),
                     "resubmit": draw(st.lists(st.integers(0, n - 1), max_size=3, unique=True)),
                     # this pass is preceded by one that fails (the database is locked / the engine reports an error)
                     "failed_pass_first": draw(st.sampled_from([False, False, True]))})
    # what else is going on while the first pass runs: nothing; a stored query whose rows are only half consumed (SQL: the
    # pass gets another pooled connection); accepted events still waiting in the LMDB writer queue (few / over a thousand)
    overlap = draw(st.sampled_from([None, None, None, "stream", "stream", "backlog:3", "backlog:3", "backlog:1200"]))
    return {"backend": draw(st.sampled_from(["kv", "sql"])), "T": T, "events": evs, "more": more, "overlap": overlap}


def verdict(ev, T):
    """'go', 'stay' or 'may'"""
    exps = [t for t in ev["tags"] if t and t[0] == "expiration"]
    eph = 20000 <= ev["kind"] < 30000
    if eph:
        return "go"
    if not exps:
        return "stay"
    if len(exps) > 1:
        return "may"
    t = exps[0]
    if len(t) < 2:
        return "stay"
    v = t[1]
    if not isinstance(v, str):
        return "may"
    if v.isascii() and v.isdigit():
        n = int(v)
        if n < T:
            return "go"
        if n > T:
            return "stay"
        return "may"
    return "stay"


class GC(Sub):
    name = "gc"
    examples = {"quick": 2000, "thorough": 16000}
    shards = {"quick": 10, "thorough": 16}
    rule = RULE

    def strategy(self, tier):
        return st_case()

    def run_case(self, case):
        return H.run(self._run, case)

    async def _run(self, case):
        backend, T = case["backend"], case["T"]
        viol = []
        labels = ["backend:" + backend]
        clock = H.Clock(T - 100)
        overlap = case.get("overlap")
        filler = []
        async with H.Rig(backend, validators=[], clock=clock,
                         file_db=True if (backend == "sql" and overlap == "stream") else None) as rig:
            w = rig.conn()
            await w.send(["REQ", "w", {"kinds": KINDS}])
            for ev in case["events"]:
                n0 = len(w.out)
                ok, reason = await rig.add(ev)
                if ok and 20000 <= ev["kind"] < 30000:
                    pushed = [f for f in w.frames(n0) if f[0] == "EVENT" and f[2]["id"] == ev["id"]]
                    if len(pushed) != 1:
                        viol.append(V("%s-ephemeral-not-pushed" % backend, "ephemeral events are delivered to live subscribers",
                                      event=ev, pushed=len(pushed)))
            before = await rig.dump()
            clock.now = float(T) + 0.5
            if backend == "sql":
                from nostr_relay.storage.db import QueryGarbageCollector as GCc
            else:
                from nostr_relay.storage.kv import KVGarbageCollector as GCc
            gc = GCc(rig.storage)
            agen = None
            if overlap == "stream" and backend == "sql":
                labels.append("pass-overlaps-open-result-stream")
                agen = rig.storage.run_single_query([{"kinds": KINDS}])
                try:
                    await agen.__anext__()
                except StopAsyncIteration:
                    agen = None
            elif overlap and overlap.startswith("backlog") and backend == "kv":
                labels.append("pass-with-writer-" + overlap)
                for j in range(int(overlap.split(":")[1])):
                    f = E.free("%064x" % (0xf1 << 200 | j), E.ADJ_HEX[4], 1, T + 5000 + j, [], "filler")
                    filler.append(f["id"])
                    await rig.storage.add_event(dict(f))
            await gc.run_once()
            if agen is not None:
                async for _ in agen:   # the reader finishes its stream after the pass (an abandoned generator would keep
                    pass               # its cursor - and with it an old snapshot - until the interpreter finalizes it)
            rig.pump()
            await rig.settle()
            after = {i: e for i, e in (await rig.dump()).items() if i not in filler}
            for rnd in case.get("more", []):
                labels.append("multi-pass")
                verdicts = self.judge(backend, before, after, T, viol)
                if viol:
                    break
                for j in rnd["resubmit"]:
                    await rig.add(case["events"][j])
                before = {i: e for i, e in (await rig.dump()).items() if i not in filler}
                T = T + rnd["dt"]
                clock.now = float(T) + 0.5
                if rnd.get("failed_pass_first"):
                    labels.append("pass-after-a-failed-pass")
                    await self.failing_pass(rig, gc)
                await gc.run_once()
                await rig.settle()
                after = {i: e for i, e in (await rig.dump()).items() if i not in filler}
            verdicts = self.judge(backend, before, after, T, viol)
            for i in after:
                if i not in before:
                    viol.append(V("%s-gc-created-event" % backend, "GC adds nothing", id=i))
            # index hygiene
            if backend == "kv":
                from props.c10 import expected_keys
                actual = {k for k, _ in rig.kv_items() if k[:1] not in (b"\x00", b"\xee")}
                must, may = set(), set()
                for rec in (await rig.dump()).values():
                    m, y, _ = expected_keys(rec)
                    must |= m
                    may |= y
                if (must - actual) or (actual - must - may):
                    viol.append(V("kv-index-incoherent-after-gc", "all index entries of a removed event are removed",
                                  missing=[k.hex() for k in sorted(must - actual)][:3],
                                  extra=[k.hex() for k in sorted(actual - must - may)][:3]))
            else:
                rows = await rig.dump_tags()
                orphan = [r for r in rows if r[0] not in after]
                if orphan:
                    viol.append(V("sql-orphan-tag-rows", "all index entries of a removed event are removed", rows=orphan[:3]))
            got = await rig.query([{"kinds": [20000, 25000, 29999, 22242]}])
            if got:
                viol.append(V("%s-ephemeral-queryable-after-gc" % backend, "ephemeral events are not queryable after a pass",
                              ids=[g["id"] for g in got]))
            await w.disconnect()
        go = [before[i] for i, v in verdicts.items() if v == "go"]
        stay = [before[i] for i, v in verdicts.items() if v == "stay"]
        nt = bool(go and stay)
        for vd in set(verdicts.values()):
            labels.append("has-" + vd)
        return Result(viol, nt, labels)


async def _failing_pass(self, rig, gc):
    """one pass of the same collector during which the engine fails; what it raises is swallowed, as Periodic does"""
    if rig.backend == "sql":
        import sqlite3

        import sqlalchemy as sa

        armed = [True]

        def boom(cursor, statement, parameters, context):
            if armed[0] and statement.lstrip().upper().startswith("DELETE"):
                armed[0] = False
                raise sqlite3.OperationalError("database is locked")

        sa.event.listen(rig.storage.db.sync_engine, "do_execute", boom)
        try:
            try:
                await gc.run_once()
            except Exception:
                pass
        finally:
            sa.event.remove(rig.storage.db.sync_engine, "do_execute", boom)
    else:
        import lmdb

        real = gc.collect

        async def collect(db):
            gc.collect = real
            raise lmdb.Error("MDB_READERS_FULL: environment maxreaders limit reached")

        gc.collect = collect
        try:
            await gc.run_once()
        except Exception:
            pass
        finally:
            gc.collect = real
    rig.pump()
    await rig.settle()


GC.failing_pass = _failing_pass


def _judge(self, backend, before, after, T, viol):
    verdicts = {}
    for i, ev in before.items():
        vd = verdict(ev, T)
        verdicts[i] = vd
        if vd == "go" and i in after:
            viol.append(V("%s-not-collected:%s" % (backend, why(ev, T)), "expired/ephemeral events are removed",
                          T=T, event=ev))
        if vd == "stay" and i not in after:
            viol.append(V("%s-wrongly-collected:%s" % (backend, why(ev, T)),
                          "GC removes no event that is not expired or ephemeral", T=T, event=ev))
    return verdicts


GC.judge = _judge


def why(ev, T):
    if 20000 <= ev["kind"] < 30000:
        return "ephemeral"
    exps = [t for t in ev["tags"] if t and t[0] == "expiration"]
    if not exps:
        return "no-expiration"
    v = exps[0][1] if len(exps[0]) > 1 else None
    if isinstance(v, str) and v.isascii() and v.isdigit():
        if len(v) != len(str(T)):
            return "digits-%d" % len(v)
        return "near-T" if abs(int(v) - T) <= 1 else "far"
    return "malformed"


SUBCHECKS = [GC()]
