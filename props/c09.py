"""
C09 - replaceable events: newest kept, older superseded, everything else untouched.

Generated arrival orders over 2 authors x replaceable and regular kinds x d-values
{absent, bare, "", a, ab, abc, e-acute} x a 4-point timestamp grid, both backends.  After every
accepted event e the raw dump is compared with the dump before:
  * every stored event of e's address strictly older than e is gone
  * nothing else disappeared: events of another address, regular events, and events of e's
    address newer than e are still there (equal timestamps may go either way)
  * the newest version of every address is still present (ties: at least one)
An 'exhaustive' sub-check runs all arrival orders of all 4-event multisets over a 2-address universe.
"""
import itertools

from hypothesis import strategies as st

from vlib import events as E
from vlib import harness as H
from vlib import refmodel as R
from vlib.core import Result, Sub, V, jhash

LEVEL = "exploration"
RULE = ("arrival histories of replaceable/regular events; non-trivial = two stored addresses differ only in a "
        "d-value where one is a substring of the other (or absent/bare/empty variants), or an out-of-order "
        "arrival happens while >=2 older versions are stored; distinct by hash of the history")
ASSUMPTIONS = ["free mode (validators: []) so ids can be chosen; SQLite only; LMDB engine modelled",
               "equal created_at within an address may be resolved either way"]

AUTH = [E.ADJ_HEX[3], E.ADJ_HEX[4]]
KINDS = [0, 3, 10000, 19999, 30000, 30000, 30000, 39999, 1, 9999, 40000]
DTAGS = [None, ["d"], ["d", ""], ["d", "a"], ["d", "ab"], ["d", "abc"], ["d", "é"], ["d", "a", "x"],
         # several d tags: only the first one counts (NIP-33's list of equivalent shapes), bare/empty first included
         [["d"], ["d", "a"]], [["d", ""], ["d", "ab"]], [["d", "a"], ["d", "ab"]], [["d", "", "a"]], [["d", "ab"], ["d"]]]
TSG = [E.T0 + 5, E.T0 + 10, E.T0 + 15, E.T0 + 20]


def mk(i, a, kind, d, ts, extra=False):
    tags = []
    if extra == 2:
        tags.append(["p", ["x"]])  # a tag value some backends cannot index: the event may be refused late
    elif extra:
        tags.append(["t", "x"])
    if d is not None:
        tags.extend([list(t) for t in d] if isinstance(d[0], list) else [list(d)])
    return E.free(("%02x" % (i + 1)) * 32, AUTH[a], kind, ts, tags)


@st.composite
def st_history(draw, maxn):
    n = draw(st.integers(2, maxn))
    out = []
    for i in range(n):
        out.append(mk(i, draw(st.integers(0, 1)), draw(st.sampled_from(KINDS)), draw(st.sampled_from(DTAGS)),
                      draw(st.sampled_from(TSG)), draw(st.sampled_from([0, 0, 1, 1, 1, 2]))))
        if draw(st.integers(0, 9)) == 0 and out:
            out.append(dict(draw(st.sampled_from([e for e in out if isinstance(e, dict)]))))  # duplicate submission
        if draw(st.integers(0, 11)) == 0:
            out.append(["reopen"])  # the relay is restarted on the same database (LMDB; ignored elsewhere)
    # runs of consecutive submissions for DIFFERENT addresses are sometimes processed concurrently
    res = []
    i = 0
    while i < len(out):
        m = draw(st.sampled_from([1, 1, 1, 2, 3, 4]))
        run = out[i:i + m]
        ok = m > 1 and len(run) == m and all(isinstance(e, dict) for e in run)
        if ok:
            addrs = [R.address(e) for e in run]
            ids = [e["id"] for e in run]
            ok = (len(set(ids)) == len(ids) and all(a is not None for a in addrs) and len(set(addrs)) == len(addrs)
                  and not any(e["id"] in [x["id"] for x in out[:i] if isinstance(x, dict)] for e in run))
        if ok:
            res.append(["together", run])
            i += m
        else:
            res.append(out[i])
            i += 1
    if draw(st.integers(0, 5)) == 0:
        # motif: several addresses with a stored version each get their newer versions at the same moment
        k = draw(st.integers(3, 8))
        kinds = [draw(st.sampled_from([0, 3, 10000, 30000, 30000])) for _ in range(k)]
        first = [mk(100 + j, j % 2, kinds[j], ["d", "m%d" % j], TSG[0]) for j in range(k)]
        second = [mk(120 + j, j % 2, kinds[j], ["d", "m%d" % j], TSG[draw(st.integers(1, 3))]) for j in range(k)]
        pairs = {}
        for f, g in zip(first, second):
            pairs.setdefault(R.address(f), (f, g))   # one pair per address
        res += [f for f, g in pairs.values()] + [["together", [g for f, g in pairs.values()]]]
    return res


def check_step(backend, before, after, ev, accepted, viol, step):
    """oracle for one submission"""
    addr = R.address(ev)
    removed = [e for i, e in before.items() if i not in after]
    if not accepted:
        if removed or (ev["id"] in after and ev["id"] not in before):
            viol.append(V("%s-refused-but-changed" % backend, "a refused event changes nothing",
                          step=step, event=ev, removed=[e["id"] for e in removed]))
        return
    for r in removed:
        ra = R.address(r)
        legit = addr is not None and ra == addr and r["created_at"] <= ev["created_at"] and r["id"] != ev["id"]
        if not legit:
            why = ("regular" if ra is None else "other-address" if ra != addr else "newer-version")
            if ra is not None and addr is not None and ra[:2] == addr[:2] and ra != addr:
                why = "other-d-value"
            viol.append(V("%s-wrongly-removed:%s" % (backend, why),
                          "accepting an event never removes an event of another address, a regular event or a newer version",
                          step=step, event=ev, removed=r))
    if addr is not None:
        for i, e in after.items():
            if i != ev["id"] and R.address(e) == addr and e["created_at"] < ev["created_at"]:
                viol.append(V("%s-older-version-kept" % backend,
                              "older events of the same author, kind and d-value are removed",
                              step=step, event=ev, kept=e))
    # newest of every address still present
    allb = dict(before)
    allb[ev["id"]] = ev
    newest = {}
    for e in allb.values():
        a = R.address(e)
        if a is not None:
            newest.setdefault(a, []).append(e)
    for a, evs in newest.items():
        top = max(e["created_at"] for e in evs)
        tops = [e for e in evs if e["created_at"] == top]
        if not any(e["id"] in after for e in tops) and any(e["id"] in before for e in tops):
            viol.append(V("%s-newest-removed" % backend, "the newest version of an address is never removed",
                          step=step, event=ev, address=list(a), newest=[e["id"] for e in tops]))


def interesting(before, ev):
    """non-trivial rule"""
    addr = R.address(ev)
    if addr is None:
        return False
    same_kind = [e for e in before.values() if R.address(e) and R.address(e)[:2] == addr[:2]]
    dvals = {R.address(e)[2] for e in same_kind} | {addr[2]}
    dvals.discard(None)
    sub = any(a != b and a in b for a in dvals for b in dvals)
    older = [e for e in same_kind if R.address(e) == addr and e["created_at"] < ev["created_at"]]
    newer = [e for e in same_kind if R.address(e) == addr and e["created_at"] > ev["created_at"]]
    return sub or len(older) >= 2 or (bool(newer) and bool(older))


async def run_burst(history):
    """LMDB: the whole history is submitted before the writer thread applies anything (a backlogged writer)"""
    viol = []
    history = [e for x in history for e in (x[1] if isinstance(x, list) and x[0] == "together" else [x]) if isinstance(e, dict)]
    async with H.Rig("kv", validators=[]) as rig:
        half = len(history) // 2
        for ev in history[:half]:
            await rig.add(ev)
        before = await rig.dump()
        burst = []
        seen = set(before)
        for ev in history[half:]:
            ok, reason = await rig.add(ev, pump=False)
            if ok and ev["id"] not in seen:
                burst.append(ev)
                seen.add(ev["id"])
        rig.pump()
        await rig.settle()
        after = await rig.dump()
        nt = False
        for r in (e for i, e in before.items() if i not in after):
            if not any(R.address(r) is not None and R.address(r) == R.address(ev) and r["created_at"] <= ev["created_at"]
                       and r["id"] != ev["id"] for ev in burst):
                viol.append(V("kv-wrongly-removed:burst", "accepting events never removes an event of another address or a newer version",
                              removed=r, burst=[e["id"][:8] for e in burst]))
        order = {e["id"]: j for j, e in enumerate(burst)}
        for ev in burst:
            addr = R.address(ev)
            if addr is None:
                continue
            for i, e in after.items():
                arrived_before = i in before or order.get(i, 10**9) < order[ev["id"]]
                if i != ev["id"] and R.address(e) == addr and e["created_at"] < ev["created_at"] and arrived_before:
                    nt = True
                    viol.append(V("kv-older-version-kept:burst", "older events of the same address are removed, also when several versions are queued together",
                                  event=ev, kept=e))
            if sum(1 for e in burst if R.address(e) == addr) >= 2:
                nt = True
        allv = {}
        for e in list(before.values()) + burst:
            if R.address(e) is not None:
                allv.setdefault(R.address(e), []).append(e)
        for a, evs in allv.items():
            top = max(e["created_at"] for e in evs)
            if not any(e["id"] in after for e in evs if e["created_at"] == top):
                viol.append(V("kv-newest-removed:burst", "the newest version of an address is never removed", address=list(a)))
    return Result(viol[:3], nt, ["backend:kv", "burst"])


async def run_history(backend, history):
    if backend == "kv-burst":
        return await run_burst(history)
    viol = []
    nt = False
    labels = ["backend:" + backend]
    together = any(isinstance(x, list) and x[0] == "together" for x in history)
    rig = H.Rig(backend, validators=[], file_db=True if (backend == "sql" and together) else None)
    await rig.open()
    try:
        for step, ev in enumerate(history):
            if isinstance(ev, list) and ev[0] == "together":
                # different addresses, all new ids: whatever the interleaving, each member's own conditions hold
                import asyncio

                from props.c08 import _add_raw

                group = ev[1]
                labels.append("together:%d" % len(group))
                before = await rig.dump()
                results = await asyncio.gather(*[_add_raw(rig, e) for e in group])
                rig.pump()
                await rig.settle()
                after = await rig.dump()
                for e, (ok, reason) in zip(group, results):
                    nt = nt or interesting(before, e)
                    v2 = []
                    # each member is judged against the store without the other members' effects: removals caused by the
                    # others are filtered out (they are legitimate for THEIR address and checked in their own turn)
                    mine_before = {i: x for i, x in before.items() if R.address(x) == R.address(e) or i in after}
                    check_step(backend, mine_before, after, e, ok, v2, step)
                    for v in v2:
                        v["sig"] += ":concurrent"
                    viol.extend(v2)
                if viol:
                    break
                continue
            if isinstance(ev, list):
                if backend == "kv":
                    path = rig.path
                    await rig.close()
                    rig = H.Rig("kv", validators=[], path=path)
                    await rig.open()
                    labels.append("reopen")
                continue
            before = await rig.dump()
            nt = nt or interesting(before, ev)
            ok, reason = await rig.add(ev)
            after = await rig.dump()
            dup = ev["id"] in before
            accepted = ok or (backend == "sql" and reason == "duplicate")
            if not ok and not dup and reason != "duplicate":
                labels.append("refused")
            if dup:
                # C06 owns "a duplicate changes nothing"; here only the frame conditions apply
                # (removing an older, already superseded version of the same address is legitimate)
                labels.append("duplicate")
                v2 = []
                check_step(backend, before, after, ev, True, v2, step)
                viol.extend(v for v in v2 if "older-version-kept" not in v["sig"])
                if viol:
                    break
                continue
            check_step(backend, before, after, ev, ok, viol, step)
            if viol:
                break
    finally:
        await rig.close()
        if backend == "kv":
            import lmdb

            lmdb._reset(rig.path)
    return Result(viol, nt, labels)


class Replace(Sub):
    name = "replace"
    examples = {"quick": 2000, "thorough": 16000}
    shards = {"quick": 12, "thorough": 16}
    rule = RULE

    def strategy(self, tier):
        return st.tuples(st.sampled_from(["kv", "sql", "kv-burst"]), st_history(9 if tier == "quick" else 16)).map(list)

    def run_case(self, case):
        return H.run(run_history, case[0], case[1])


class Orders(Sub):
    """all arrival orders of 4 events over a 2-address universe"""

    name = "all-orders"
    mode = "enumerate"
    exhaustive = True
    shards = {"quick": 8, "thorough": 16}
    rule = ("exhaustive: every multiset of 4 (quick: 3) events over {d=a, d=ab} x timestamps {5,10,20} of one "
            "author/kind 30000, in every arrival order, both backends; non-trivial as above")

    def enumerate(self, tier):
        n = 3 if tier == "quick" else 4
        universe = [(d, ts) for d in (["d", "a"], ["d", "ab"]) for ts in (E.T0 + 5, E.T0 + 10, E.T0 + 20)]
        seen = set()
        for combo in itertools.combinations_with_replacement(range(len(universe)), n):
            for perm in set(itertools.permutations(combo)):
                for backend in ("kv", "sql"):
                    yield [backend, [mk(i, 0, 30000, universe[j][0], universe[j][1]) for i, j in enumerate(perm)]]

    def run_case(self, case):
        return H.run(run_history, case[0], case[1])


SUBCHECKS = [Replace(), Orders()]
