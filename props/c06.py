"""
C06 - OK acknowledgements agree with what the relay actually did.

Websocket-level histories (default validators: real signatures) with a watcher connection
subscribed to everything.  Submissions: valid regular / replaceable / parameterized / kind-5 /
ephemeral events, corrupted ones, duplicates, long tags, huge timestamps and kinds.
After each EVENT message (writers idle):
  * exactly one OK frame answers it
  * OK true  => stored (raw dump), or ephemeral and pushed to the watcher, or superseded by a
                newer stored version of its address
  * authentic, well-formed, in the must-accept range, not a duplicate => OK true
  * OK false => no trace: raw dump unchanged (events, tag rows / whole LMDB keyspace), nothing pushed
  * duplicate => raw dump unchanged and nothing pushed
"""
import json

from hypothesis import strategies as st

from vlib import events as E
from vlib import harness as H
from vlib import refmodel as R
from vlib.core import Result, Sub, V

LEVEL = "exploration"
RULE = ("histories of 3-10 EVENT messages on one connection with a watcher on another; non-trivial = the history "
        "contains a duplicate or a refused submission after an accepted one; distinct by hash of the history")
ASSUMPTIONS = ["default validator list (is_signed); SQLite only; LMDB engine modelled, writer pumped before observing",
               "must-accept range: created_at 1..2^31-1, kind 0..65535, string tags <= 300 chars; outside it either a "
               "refusal without trace or an acceptance with the event retrievable is fine"]

DT = [None, ["d"], ["d", ""], ["d", "a"], ["d", "ab"]]


@st.composite
def st_valid(draw, prior):
    k = draw(st.integers(0, 2))
    kind = draw(st.sampled_from([1, 1, 1, 0, 3, 7, 10000, 30000, 30000, 5, 20000, 29999, 65535]))
    ts = E.T0 + draw(st.integers(0, 5))
    tags = []
    addressable = [p for p in prior if R.address(p) is not None and p["pubkey"] in E.PKS[:3]]
    if addressable and draw(st.integers(0, 3)) == 0:
        # a sibling of an earlier addressable event: same author and kind, older / equal / newer,
        # same or another d tag (out-of-order arrival within and across addresses)
        sib = draw(st.sampled_from(addressable))
        k = E.PKS.index(sib["pubkey"])
        kind = sib["kind"]
        ts = max(1, sib["created_at"] + draw(st.integers(-2, 2)))
    if kind == 5 and prior:
        for _ in range(draw(st.integers(1, 2))):
            tags.append(["e", draw(st.sampled_from(prior))["id"]])
    if kind == 30000:
        d = draw(st.sampled_from(DT))
        if d is not None:
            tags.append(list(d))
    extra = draw(st.integers(0, 10))
    if extra == 10:
        extra = 4
    if extra <= 3:
        tags.append(["t", draw(st.sampled_from(["a", "ab", "", "é", "x" * 200]))])
    elif extra == 4:
        # around LMDB's 511-byte key limit (511 - 38 byte suffix - 3 byte prefix = 470) and beyond
        tags.append(["t", "y" * draw(st.sampled_from([300, 467, 468, 469, 470, 471, 472, 473, 474, 520, 700]))])
    elif extra == 5:
        ts = draw(st.sampled_from([2**31 - 1, 2**31, 2**32 - 1, 2**32, 2**63 - 1, 2**63, 2**64]))
    elif extra == 6:
        kind = draw(st.sampled_from([65536, 2**31, 2**32 - 1, 2**32, 2**63, 2**64]))
    elif extra == 7:
        # a tag value that is not a string (relay hints inside the value, numbers): accepted or refused, but consistently
        tags.append(draw(st.sampled_from([["e", ["ab" * 32, "wss://r"]], ["t", ["a"]], ["e", 1], ["t", {"a": 1}], ["p", None]])))
    return E.make(k, kind, ts, tags, draw(st.sampled_from(["", "hello", "x" * 100])))


@st.composite
def st_history(draw, maxn):
    n = draw(st.integers(3, maxn))
    hist = []
    valid = []
    for _ in range(n):
        c = draw(st.integers(0, 9))
        if c <= 5 or not valid:
            ev = draw(st_valid(valid))
            valid.append(ev)
            hist.append(ev)
            if ev["kind"] == 5 and draw(st.integers(0, 2)) == 0:
                # the deleted event is published again, then the (stored) deletion is sent again
                tgt = [v for v in valid if any(t[0] == "e" and t[1] == v["id"] for t in ev["tags"])]
                if tgt:
                    hist.append(dict(tgt[0]))
                    hist.append(dict(ev))
        elif c <= 7:
            hist.append(dict(draw(st.sampled_from(valid))))  # duplicate
        else:
            ev = dict(draw(st_valid(valid)))
            m = draw(st.integers(0, 3))
            if m == 0:
                ev["sig"] = "00" * 64
            elif m == 1:
                ev["content"] += "!"
            elif m == 2:
                ev["id"] = "ab" * 32
            else:
                ev["pubkey"] = E.PKS[5]
            hist.append(ev)
    return hist


def must_accept(ev):
    ok, _ = E.authentic(ev)
    if not ok:
        return False
    if not (1 <= ev["created_at"] < 2**31 and 0 <= ev["kind"] <= 65535):
        return False
    for t in ev["tags"]:
        if not all(isinstance(x, str) and len(x) <= 300 for x in t) or not t:
            return False
    return True


async def raw(rig):
    """everything below the relay: events + (SQL) tag rows / (LMDB) all keys"""
    d = await rig.dump()
    if rig.backend == "sql":
        return d, await rig.dump_tags()
    return d, sorted(k.hex() for k, _ in rig.kv_items())


class Ack(Sub):
    name = "ack"
    examples = {"quick": 1200, "thorough": 9600}
    shards = {"quick": 12, "thorough": 16}
    rule = RULE

    def strategy(self, tier):
        # third element: the cross-worker notifier is configured but its server cannot be reached
        return st.tuples(st.sampled_from(["kv", "sql"]), st_history(8 if tier == "quick" else 16),
                         st.sampled_from([False, False, False, True])).map(list)

    def run_case(self, case):
        return H.run(self._run, case[0], case[1], case[2] if len(case) > 2 else False)

    async def _run(self, backend, history, notifier_down=False):
        viol = []
        labels = ["backend:" + backend]
        seen_accept = False
        nt = False
        real_asyncio = None
        if notifier_down:
            import types

            from nostr_relay import notifier

            async def refuse(*a, **kw):
                raise ConnectionRefusedError("notify server is down")

            real_asyncio = notifier.asyncio
            fake = types.SimpleNamespace(**{k: getattr(real_asyncio, k) for k in dir(real_asyncio) if not k.startswith("__")})
            fake.open_connection = refuse
            notifier.asyncio = fake
            labels.append("notifier-configured-server-down")
        try:
            return await self._history(backend, history, notifier_down, labels)
        finally:
            if real_asyncio is not None:
                notifier.asyncio = real_asyncio

    async def _history(self, backend, history, notifier_down, labels):
        viol = []
        seen_accept = False
        nt = False
        async with H.Rig(backend, config={"run_notifier": True} if notifier_down else {}) as rig:
            w = rig.conn("10.0.0.9")
            await w.send(["REQ", "w", {"since": 1}])
            # further live subscriptions whose filters look INTO tag values (matching is evaluated for every accepted event)
            await w.send(["REQ", "w2", {"#e": ["ab" * 32], "#t": ["a"]}])
            await w.send(["REQ", "w3", {"#p": [E.PKS[0]], "kinds": [1]}])
            c = rig.conn("10.0.0.1")
            for step, ev in enumerate(history):
                before, before_raw = await raw(rig)
                nw = len(w.out)
                frames = [json.loads(x) for x in await c.send(["EVENT", ev])]
                after, after_raw = await raw(rig)
                pushed = [f for f in w.frames(nw) if f[0] == "EVENT" and f[2].get("id") == ev["id"]]
                oks = [f for f in frames if f[0] == "OK"]
                if len(oks) != 1 or len(frames) != 1:
                    viol.append(V("%s-ok-count" % backend, "each EVENT message is answered by exactly one OK frame",
                                  step=step, frames=frames))
                    break
                ok = oks[0][2]
                dup = ev["id"] in before and before[ev["id"]] == _norm(ev)
                eph = R.is_ephemeral(ev["kind"]) if isinstance(ev.get("kind"), int) else False
                labels.append("ok-true" if ok else "ok-false")
                if dup:
                    labels.append("duplicate")
                    nt = True
                    if after_raw != before_raw:
                        viol.append(V("%s-duplicate-changed-store" % backend, "resubmitting a stored event changes nothing",
                                      step=step, event=ev, removed=[i for i in before if i not in after]))
                    if pushed:
                        viol.append(V("%s-duplicate-rebroadcast" % backend, "a resubmitted event is not broadcast again",
                                      step=step, event=ev))
                    continue
                if ok is True:
                    seen_accept = True
                    stored = ev["id"] in after
                    addr = R.address(ev)
                    superseded = addr is not None and any(
                        R.address(e) == addr and e["created_at"] >= ev["created_at"] and e["id"] != ev["id"]
                        for e in after.values())
                    if not (stored or (eph and pushed) or superseded):
                        viol.append(V("%s-ok-true-but-lost:%s" % (backend, lost_class(ev)),
                                      "OK true only if the event is retrievable, ephemeral+broadcast, or superseded",
                                      step=step, event=_short(ev), reason=oks[0][3]))
                    if stored and after[ev["id"]] != _norm(ev):
                        viol.append(V("%s-stored-differs" % backend, "the stored event equals the accepted one",
                                      step=step, event=_short(ev), stored=after[ev["id"]]))
                    if not pushed and (stored or eph):
                        viol.append(V("%s-accepted-not-broadcast" % backend, "an accepted event reaches a matching subscriber",
                                      step=step, event=_short(ev)))
                else:
                    if seen_accept:
                        nt = True
                    if must_accept(ev):
                        viol.append(V("%s-valid-event-refused" % backend,
                                      "a well-formed authentic event is never refused except as a duplicate",
                                      step=step, event=_short(ev), reason=oks[0][3]))
                    if after_raw != before_raw:
                        viol.append(V("%s-ok-false-left-trace" % backend, "OK false means the event left no trace",
                                      step=step, event=_short(ev), reason=oks[0][3]))
                    if pushed:
                        viol.append(V("%s-ok-false-but-broadcast" % backend, "a refused event is not broadcast",
                                      step=step, event=_short(ev)))
                if viol:
                    break
            await c.disconnect()
            await w.disconnect()
        return Result(viol, nt, labels)


def _norm(ev):
    return {k: ev[k] for k in ("id", "pubkey", "created_at", "kind", "tags", "content", "sig")}


def _short(ev):
    e = dict(ev)
    e["tags"] = [[(x[:40] + "...(%d)" % len(x)) if isinstance(x, str) and len(x) > 60 else x for x in t] for t in ev["tags"]]
    return e


def lost_class(ev):
    if ev["created_at"] >= 2**32 or ev["kind"] >= 2**32:
        return "int-overflow"
    if any(isinstance(x, str) and len(x) > 400 for t in ev["tags"] for x in t):
        return "long-tag"
    return "other"


SUBCHECKS = [Ack()]
