"""
C13 - subscription protocol: one EOSE per REQ, CLOSE and replacement end delivery.

Sub-checks
  exhaustive   every sequence up to depth 4 (thorough: 5) over a 13-message alphabet on one connection
               (REQ a/b/c/d with two filters, empty / wholly invalid / partly invalid filter lists,
               non-string sub id, CLOSE a, CLOSE unknown, EVENT matching f1, EVENT matching f2),
               subscription_limit = 3, LMDB always and SQL on a deterministic 1-in-8 sample.
  schedule     random deeper sequences on two connections with messages fed back-to-back (no settle in
               between), query jobs parked and released by the schedule (LMDB) and bursts of REQ+CLOSE
               pairs; a REQ must never be met with silence.
Protocol model (per subscription instance): accepted REQ -> stored events then exactly one EOSE;
refused REQ -> NOTICE (or the connection is closed); after CLOSE / replacing REQ / disconnect has
settled no further frame for the old instance (for a replacement: frames must match the NEW filters);
never more than subscription_limit subscriptions; a REQ refused for the limit leaves the others delivering.
"""
import itertools
import json

from hypothesis import strategies as st

from vlib import events as E
from vlib import harness as H
from vlib import refmodel as R
from vlib.core import Result, Sub, V, jhash

LEVEL = "exploration"
RULE = ("message sequences against a protocol model; non-trivial = the sequence contains a REQ that reuses an "
        "open subscription id, or a CLOSE of an open subscription followed by a matching EVENT; distinct by hash "
        "of (backend, sequence)")
ASSUMPTIONS = ["subscription_limit configured to 3", "LMDB in deterministic mode (no threads), SQL with aiosqlite threads",
               "liveness = quiescence reached by settle(); a task left waiting on a lock nobody holds is reported with that lock named"]

F1 = {"kinds": [1]}
F2 = {"kinds": [2]}
BAD = {"kinds": "x"}
ALPHABET = [
    ["REQ", "a", F1], ["REQ", "a", F2], ["REQ", "b", F1], ["REQ", "c", F1], ["REQ", "d", F1],
    ["REQ", "a"], ["REQ", "a", BAD], ["REQ", "a", BAD, F1],
    ["CLOSE", "a"], ["CLOSE", "z"], ["EVENT", 1], ["EVENT", 2], ["REQ", 5, F1],
]
# further messages for the schedule sub-check only (the exhaustive one keeps its 13-message alphabet): filters that are
# invalid in ways the validation layer sees late (values that cannot be hashed, numbers far out of range)
N_EXH = len(ALPHABET)
ALPHABET += [["REQ", "a", {"#e": [["a"]]}], ["REQ", "b", {"#t": [{"a": 1}], "kinds": [1]}], ["REQ", "a", {"kinds": [2**70]}, F1]]
PRE = [E.make(3, 1, E.T0 - 10, [], "stored1"), E.make(3, 2, E.T0 - 10, [], "stored2")]
LIMIT = 3


class Model:
    """open subscriptions of one connection: sub id (string) -> list of filters"""

    def __init__(self):
        self.subs = {}

    def valid_filters(self, filters):
        return [f for f in filters if isinstance(f, dict) and all(not isinstance(v, str) for k, v in f.items() if k == "kinds")]


def fresh_event(kind, n):
    return E.make(4, kind, E.T0 + n, [], "live%d" % n)


async def play(rig, conn, seq, viol, counter, model=None, others=(), label=""):
    """feed messages one by one with a settle after each; check every step against the model"""
    model = model or Model()
    nt = False
    stored = {1: [PRE[0]], 2: [PRE[1]]}
    for step, msg in enumerate(seq):
        n0 = len(conn.out)
        m = list(msg)
        ev = None
        if m[0] == "EVENT":
            counter[0] += 1
            ev = fresh_event(m[1], counter[0])
            m = ["EVENT", ev]
        await conn.send(m)
        if rig.stuck:
            viol.append(V("stuck-on-lock", "a REQ is never met with silence / tasks finish", step=step,
                          waiting=rig.stuck))
            return nt
        frames = conn.frames(n0)
        if conn.closed is not None or conn.task.done():
            viol.append(V("connection-closed-on-wellformed-input", "well-formed commands do not close the connection",
                          step=step, msg=msg, code=conn.closed))
            return nt
        if m[0] == "REQ":
            sid = str(m[1])
            filters = m[2:]
            good = model.valid_filters(filters)
            replaced = sid in model.subs
            if replaced:
                nt = True
                del model.subs[sid]  # a REQ reusing the id ends the old subscription, whatever its own fate
            evs = [f for f in frames if f[0] == "EVENT"]
            eose = [f for f in frames if f[0] == "EOSE"]
            notice = [f for f in frames if f[0] == "NOTICE"]
            if not good:
                if len(eose) + len(notice) < 1:
                    viol.append(V("req-met-with-silence", "a REQ is answered by EOSE or NOTICE", step=step, msg=msg, frames=frames))
                if evs:
                    viol.append(V("events-for-invalid-req", "a REQ without a valid filter returns no events", step=step, frames=frames))
            elif len(model.subs) >= LIMIT:
                if not notice:
                    viol.append(V("over-limit-req-not-refused", "a REQ beyond subscription_limit is answered by a NOTICE",
                                  step=step, msg=msg, frames=frames, open=sorted(model.subs)))
                if evs or eose:
                    viol.append(V("over-limit-req-served", "a refused REQ is not served", step=step, frames=frames))
            else:
                model.subs[sid] = good
                want = [e["id"] for k in (1, 2) for e in stored[k] if any(R.must_match(e, f) for f in good)]
                got = [f[2]["id"] for f in evs if f[1] == sid]
                if sorted(got) != sorted(want):
                    viol.append(V("stored-results-wrong", "an accepted REQ is answered by its stored events",
                                  step=step, msg=msg, got=got, want=want))
                if [f[1] for f in eose] != [sid]:
                    viol.append(V("eose-count", "exactly one EOSE for an accepted REQ", step=step, msg=msg, frames=frames))
                elif frames and frames[-1][0] != "EOSE":
                    viol.append(V("eose-not-last", "EOSE follows the stored events", step=step, frames=frames))
        elif m[0] == "CLOSE":
            model.subs.pop(str(m[1]), None)
            if frames:
                viol.append(V("frames-after-close", "CLOSE produces no frame", step=step, frames=frames))
        elif m[0] == "EVENT":
            stored[ev["kind"]].append(ev)
            oks = [f for f in frames if f[0] == "OK"]
            if len(oks) != 1 or oks[0][2] is not True:
                viol.append(V("event-not-acked", "a valid EVENT is acknowledged", step=step, frames=frames))
            pushed = [f[1] for f in frames if f[0] == "EVENT" and f[2]["id"] == ev["id"]]
            want = sorted(s for s, fl in model.subs.items() if any(R.must_match(ev, f) for f in fl))
            if sorted(pushed) != want:
                sig = "delivered-to-closed-or-replaced" if set(pushed) - set(want) else "live-event-not-delivered"
                viol.append(V(sig, "a new event reaches exactly the open matching subscriptions",
                              step=step, event_kind=ev["kind"], pushed=sorted(pushed), want=want, open=model.subs))
            other = [f for f in frames if f[0] == "EVENT" and f[2]["id"] != ev["id"]]
            if other:
                viol.append(V("unexpected-event-frame", "no frame for other events", step=step, frames=other))
        cid = _client_id(rig, conn)
        real = rig.storage.clients.get(cid, {}) if cid is not None else {}
        if len(real) > LIMIT:
            viol.append(V("subscription-limit-exceeded", "never more than subscription_limit subscriptions",
                          step=step, count=len(real)))
        if viol:
            return nt
    return nt


def _client_id(rig, conn):
    for cid in list(rig.storage.clients.keys()):
        if str(cid).startswith(conn.addr + "-"):
            return cid
    return None


class Exhaustive(Sub):
    name = "exhaustive"
    mode = "enumerate"
    exhaustive = True
    shards = {"quick": 16, "thorough": 16}
    rule = ("exhaustive: all sequences of length <=4 (thorough <=5) over the 13-message alphabet, LMDB; SQL on every "
            "8th batch; one case = all continuations of a 2-message prefix; " + RULE)

    def enumerate(self, tier):
        depth = 4 if tier == "quick" else 5
        n = N_EXH
        k = 0
        for head in itertools.product(range(n), repeat=2):
            yield {"backend": "kv", "head": list(head), "depth": depth}
            k += 1
            if k % 8 == 0:
                yield {"backend": "sql", "head": list(head), "depth": depth - 1}

    def run_case(self, case):
        return H.run(self._run, case)

    async def _run(self, case):
        n = N_EXH
        viol = []
        nts = []
        evals = 0
        only = case.get("tail")
        tails = [only] if only is not None else [list(t) for d in range(0, case["depth"] - 1)
                                                 for t in itertools.product(range(n), repeat=d)]
        sample = None
        for tail in tails:
            seq = [ALPHABET[i] for i in case["head"] + tail]
            async with H.Rig(case["backend"], config={"subscription_limit": LIMIT}) as rig:
                for p in PRE:
                    await rig.add(p)
                c = rig.conn("10.0.0.1")
                counter = [0]
                nt = await play(rig, c, seq, viol, counter)
                if not viol:
                    await c.disconnect()
                    if _client_id(rig, c) is not None:
                        viol.append(V("subscriptions-survive-disconnect", "disconnect drops all subscriptions", seq=seq))
            evals += 1
            sample = seq
            if nt:
                nts.append(jhash([case["backend"], case["head"], tail]))
            if viol:
                viol[0]["detail"]["tail"] = tail
                viol[0]["detail"]["seq"] = seq
                break
        return Result(viol, bool(nts), ["backend:" + case["backend"]],
                      sample={"backend": case["backend"], "seq": sample}, evals=evals, nt_hashes=nts)


# ------------------------------------------------------------------ schedule


@st.composite
def st_schedule(draw):
    backend = draw(st.sampled_from(["kv", "kv", "sql"]))
    ops = []
    for _ in range(draw(st.integers(3, 14))):
        k = draw(st.integers(0, 11))
        conn = draw(st.integers(0, 1))
        if k <= 4:
            ops.append(["msg", conn, draw(st.integers(0, len(ALPHABET) - 1))])
        elif k == 5:
            # a REQ with several filters (several plans / one UNION) followed sooner or later by its CLOSE
            ops.append(["multi", conn, draw(st.sampled_from(["a", "m"])), draw(st.integers(2, 4))])
            ops.append(draw(st.sampled_from([["yield", 1], ["yield", 3], ["release", 0], ["settle"]])))
            ops.append(["closeid", conn, ops[-2][2]])
        elif k == 6:
            ops.append(["settle"])
        elif k == 7:
            ops.append(["park", draw(st.booleans())])
        elif k == 8:
            ops.append(["release", draw(st.integers(0, 3))])
        elif k == 9:
            ops.append(["burst", conn, draw(st.integers(2, 14)), draw(st.sampled_from(["close", "replace"])),
                        draw(st.sampled_from([0, 1, 2, 3, 5, 8]))])
        elif k == 10:
            ops.append(draw(st.sampled_from([["yield", 1], ["yield", 3], ["yield", 5], ["advance", 45], ["advance", 4000]])))
        elif k == 11 and draw(st.integers(0, 3)) == 0:
            # the next frame the relay tries to send on this connection is lost to a transient transport error
            ops.append(["senderr", conn])
        elif k == 11 and draw(st.booleans()):
            # a REQ without any usable filter under an id of its own (answered EOSE, never registered), directly followed by
            # the CLOSE of another subscription
            ops.append(["unusable", conn, draw(st.sampled_from(["y", "a"])), draw(st.sampled_from(["a", "b", "z"]))])
        else:
            ops.append(["disconnect", conn])
    # LMDB: the query-statistics queue (30 slots, drained slowly by a thread) is already full / almost full / empty
    return {"backend": backend, "ops": ops, "analysis_backlog": draw(st.sampled_from([0, 0, 29, 30]))}


class Schedule(Sub):
    name = "schedule"
    examples = {"quick": 800, "thorough": 6400}
    shards = {"quick": 8, "thorough": 16}
    rule = ("two connections, messages fed without settling, parked/released query jobs, bursts of REQ+CLOSE or "
            "REQ+REQ pairs; oracle: per (conn, sub id) at most one EOSE per REQ sent, EVENT frames under an id match "
            "the filters of SOME REQ sent for that id, after the final settle every still-open REQ has its EOSE and "
            "a probe REQ on each live connection is answered; non-trivial = a burst or a parked job occurred")

    def strategy(self, tier):
        return st_schedule()

    def run_case(self, case):
        return H.run(self._run, case)

    async def _run(self, case):
        import asyncio

        backend = case["backend"]
        viol = []
        labels = ["backend:" + backend]
        nt = False
        # SQL on a file database: with :memory: SQLAlchemy shares ONE connection, and cancelling an in-flight
        # query (CLOSE / replacing REQ) terminates it - an artefact of the test database, not of the relay
        async with H.Rig(backend, config={"subscription_limit": LIMIT}, file_db=True if backend == "sql" else None,
                         analysis_backlog=case.get("analysis_backlog", 0)) as rig:
            if case.get("analysis_backlog"):
                labels.append("analysis-queue-backlog")
            for p in PRE:
                await rig.add(p)
            conns = [rig.conn("10.0.0.1"), rig.conn("10.0.0.2")]
            sent_reqs = [dict(), dict()]   # conn -> sub id -> list of filter lists sent
            counter = [0]
            pool = rig.storage.query_pool if backend == "kv" else None
            alive = [True, True]

            lost_frame = [False, False]   # a frame of this connection was dropped by the (simulated) transport
            last_req = [dict(), dict()]   # conn -> sub id (as sent, string ids only) -> frames seen when its latest REQ was fed

            def feed(ci, msg, turns=1):
                if msg[0] == "REQ" and isinstance(msg[1], str):
                    last_req[ci][msg[1]] = len(conns[ci].out)
                elif msg[0] == "CLOSE" and isinstance(msg[1], str):
                    last_req[ci][msg[1]] = None
                m = list(msg)
                if m[0] == "EVENT":
                    counter[0] += 1
                    m = ["EVENT", fresh_event(m[1], counter[0])]
                if m[0] == "REQ":
                    sent_reqs[ci].setdefault(str(m[1]), []).append(m[2:])
                conns[ci].feed(m, turns)

            closed_at = [dict(), dict()]      # conn -> sub id -> number of frames seen when its CLOSE had been handled
            pending_close = [dict(), dict()]  # conn -> sub id -> True while a CLOSE is fed but maybe not handled yet

            async def note_handled():
                # a CLOSE counts as handled once the handler finished with it, every notification task that was
                # already under way has run, and the sender task has drained what was queued before (all MAY)
                for ci2, c2 in enumerate(conns):
                    if pending_close[ci2] and c2.idle() and all(t.done() for t in rig.storage._notify_sub_tasks):
                        for _ in range(4):
                            await asyncio.sleep(0)
                        if c2.idle() and all(t.done() for t in rig.storage._notify_sub_tasks):
                            for sid in list(pending_close[ci2]):
                                closed_at[ci2][sid] = len(c2.out)
                                del pending_close[ci2][sid]

            for op in case["ops"]:
                if op[0] == "msg" and alive[op[1]]:
                    m = ALPHABET[op[2]]
                    if m[0] == "CLOSE":
                        pending_close[op[1]][str(m[1])] = True
                    elif m[0] == "REQ":
                        pending_close[op[1]].pop(str(m[1]), None)
                        closed_at[op[1]].pop(str(m[1]), None)
                    feed(op[1], m)
                elif op[0] == "multi" and alive[op[1]]:
                    pending_close[op[1]].pop(op[2], None)
                    closed_at[op[1]].pop(op[2], None)
                    feed(op[1], ["REQ", op[2]] + [F1, F2, {"kinds": [1, 2]}, {"authors": [PRE[0]["pubkey"]]}][: op[3]])
                elif op[0] == "closeid" and alive[op[1]]:
                    pending_close[op[1]][op[2]] = True
                    feed(op[1], ["CLOSE", op[2]])
                elif op[0] == "settle":
                    if pool:
                        pool.park = False  # settling means: every job gets to run
                        pool.release_all()
                    rig.release_query_slots()
                    await rig.settle()
                elif op[0] == "park" and pool:
                    pool.park = op[1]
                    nt = nt or op[1]
                elif op[0] == "park":
                    # SQL: all query slots taken (as by long queries of other clients) / given back
                    if op[1]:
                        await rig.hold_query_slots()
                        nt = True
                        labels.append("sql-query-slots-held")
                    else:
                        rig.release_query_slots()
                elif op[0] == "release" and pool:
                    pool.release(op[1])
                elif op[0] == "release":
                    rig.release_query_slots()
                elif op[0] == "senderr" and alive[op[1]]:
                    conns[op[1]].fail_sends = 1
                    lost_frame[op[1]] = True
                    labels.append("one-frame-lost-in-transport")
                elif op[0] == "advance":
                    asyncio.get_running_loop()._voffset += op[1]   # time passes (any timer the relay armed may fire)
                    for _ in range(4):
                        await asyncio.sleep(0)
                elif op[0] == "unusable" and alive[op[1]]:
                    pending_close[op[1]].pop(op[2], None)
                    closed_at[op[1]].pop(op[2], None)
                    feed(op[1], ["REQ", op[2], BAD], 0)
                    pending_close[op[1]][op[3]] = True
                    feed(op[1], ["CLOSE", op[3]], 0)
                elif op[0] == "burst" and alive[op[1]]:
                    nt = True
                    for i in range(op[2]):
                        feed(op[1], ["REQ", "x", F1], op[4])
                        if op[3] == "close":
                            feed(op[1], ["CLOSE", "x"], op[4])
                    labels.append("burst")
                elif op[0] == "yield":
                    for _ in range(op[1]):
                        await asyncio.sleep(0)
                elif op[0] == "disconnect" and alive[op[1]]:
                    alive[op[1]] = False
                    conns[op[1]].feed(None)
                for _ in range(2):
                    await asyncio.sleep(0)
                await note_handled()
                # no EVENT frame for a subscription whose CLOSE has been handled (until a new REQ re-uses the id)
                for ci2, c2 in enumerate(conns):
                    for sid, n_at in closed_at[ci2].items():
                        late = [f for f in c2.frames(n_at) if f[0] == "EVENT" and f[1] == sid]
                        if late:
                            viol.append(V("event-after-close", "after CLOSE no further event is sent for the subscription",
                                          conn=ci2, sub=sid, late=len(late)))
                if rig.stuck or viol:
                    break
            if pool:
                pool.park = False
                pool.release_all()
            rig.release_query_slots()
            await rig.settle()
            await note_handled()
            # every REQ that was not closed or replaced afterwards has been answered by now (before any probe is sent)
            for ci2, c2 in enumerate(conns):
                if not alive[ci2] or c2.closed is not None or c2.task.done() or rig.stuck or viol:
                    continue
                if lost_frame[ci2]:
                    continue   # the lost frame may have been that EOSE; the probe below must still be answered
                for sid, n_at in last_req[ci2].items():
                    if n_at is None:
                        continue
                    fr = c2.frames(n_at)
                    if not any((f[0] == "EOSE" and f[1] == sid) or f[0] == "NOTICE" for f in fr):
                        viol.append(V("req-met-with-silence", "a REQ is answered", conn=ci2, sub=sid, frames=fr[:5], ops=case["ops"]))
            for ci2, c2 in enumerate(conns):
                for sid, n_at in closed_at[ci2].items():
                    if not viol and [f for f in c2.frames(n_at) if f[0] == "EVENT" and f[1] == sid]:
                        viol.append(V("event-after-close", "after CLOSE no further event is sent for the subscription",
                                      conn=ci2, sub=sid))
            # probes: every live connection still answers a REQ
            for ci, c in enumerate(conns):
                if alive[ci] and c.closed is None and not c.task.done() and not rig.stuck:
                    await c.send(["CLOSE", "a"])
                    await c.send(["CLOSE", "b"])
                    await c.send(["CLOSE", "c"])
                    await c.send(["CLOSE", "x"])
                    n0 = len(c.out)
                    await c.send(["REQ", "probe", F1])
                    fr = c.frames(n0)
                    if not any((f[0] == "EOSE" and f[1] == "probe") or f[0] == "NOTICE" for f in fr) and not rig.stuck:
                        viol.append(V("req-met-with-silence", "a REQ is answered", conn=ci, frames=fr[:5]))
            if rig.stuck:
                viol.append(V("stuck-on-lock", "a REQ is never met with silence / tasks finish", waiting=rig.stuck))
            for ci, c in enumerate(conns):
                eose = {}
                for f in c.frames():
                    if f[0] == "EOSE":
                        eose[f[1]] = eose.get(f[1], 0) + 1
                    elif f[0] == "EVENT":
                        flists = sent_reqs[ci].get(f[1])
                        if flists is None and f[1] != "probe":
                            viol.append(V("event-for-unknown-subscription", "EVENT frames carry a requested sub id", frame=f[:2]))
                        elif f[1] != "probe" and not any(R.may_match(f[2], flt) for fl in flists for flt in fl if isinstance(flt, dict)):
                            viol.append(V("event-matches-no-req", "frames under an id match a filter sent for that id",
                                          sub=f[1], kind=f[2]["kind"]))
                for sid, n in eose.items():
                    if sid != "probe" and n > len(sent_reqs[ci].get(sid, [])):
                        viol.append(V("too-many-eose", "at most one EOSE per REQ", conn=ci, sub=sid, eose=n,
                                      reqs=len(sent_reqs[ci].get(sid, []))))
                if c.log.exceptions:
                    viol.append(V("handler-exception-logged", "no exception escapes the handler", exc=c.log.exceptions[0][1][-300:]))
            for ci, c in enumerate(conns):
                if not c.task.done():
                    await c.disconnect()
        return Result(viol, nt, labels)


SUBCHECKS = [Exhaustive(), Schedule()]
