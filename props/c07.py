"""
C07 - all effects of an event are applied atomically, even across crashes.   (fault enumeration)

Histories of events with MANY effects each (parameterized-replaceable versions with several indexed
tags superseding older ones, kind 0/3, kind-5 deleting several events).  A clean run records the raw
dump after every event (S0..Sn) and how many storage mutations each event performs (SQL statements seen
by a before_cursor_execute listener / LMDB puts+deletes seen by the engine model).  Then EVERY
(event i, mutation k) is faulted:
  error   the engine fails at (i,k) in-process  -> dump == S(i-1); the remaining events then produce
          exactly the dumps of the history without event i (a failure does not prevent later events);
          SQL: the failed event is answered negatively and not broadcast
  kill    the process dies at (i,k) and the database is reopened -> dump in {S(i-1), S(i)}
          (LMDB: BaseException out of the writer, environment reopened; SQL: BaseException + engine
          dropped + file reopened with sqlite3 for every point, and a real child process killed with
          os._exit at a stratified sample of points)
"""
import json
import os
import sqlite3
import subprocess
import sys
import tempfile

from hypothesis import strategies as st

from vlib import bootstrap
from vlib import events as E
from vlib import harness as H
from vlib.core import Result, Sub, V, jhash

LEVEL = "fault_enumeration"
RULE = ("Hypothesis-drawn histories; for each history every (event, mutation index) fault point is enumerated; one "
        "evaluation = one fault point; non-trivial = the faulted event performs >=3 mutations and the fault is "
        "strictly inside (1 <= k < last); distinct by hash of (backend, mode, history, i, k)")
ASSUMPTIONS = ["LMDB commit atomicity is the engine's documented guarantee (only a model of the engine is available): "
               "the LMDB result reads 'all effects of one event are inside one write transaction'",
               "SQLite is exercised for real: WAL file database, child processes killed with os._exit",
               "free mode (validators: [])"]

A = E.ADJ_HEX[3]
B = E.ADJ_HEX[4]


@st.composite
def st_history(draw):
    n = draw(st.integers(3, 7))
    evs = []
    for i in range(n):
        eid = ("%02x" % (i + 1)) * 32
        kind = draw(st.sampled_from([30000, 30000, 0, 3, 1, 1, 5, 10000]))
        ts = E.T0 + draw(st.integers(0, 9))
        author = draw(st.sampled_from([A, A, B]))
        tags = [["t", v] for v in draw(st.lists(st.sampled_from(["a", "b", "c", "d"]), max_size=3, unique=True))]
        tags += [["p", draw(st.sampled_from([A, B]))]] if draw(st.booleans()) else []
        if kind == 30000:
            tags.append(["d", draw(st.sampled_from(["x", "x", "y"]))])
        if kind == 5 and evs:
            for t in draw(st.lists(st.sampled_from(evs), min_size=1, max_size=3)):
                tags.append(["e", t["id"]])
        if draw(st.integers(0, 5)) == 0:
            tags.append(["expiration", str(E.T0 + 100)])
        evs.append(E.free(eid, author, kind, ts, tags, "c%d" % i))
    return evs


async def raw(rig):
    d = await rig.dump()
    if rig.backend == "sql":
        return {"events": d, "index": await rig.dump_tags()}
    return {"events": d, "index": sorted(k.hex() for k, _ in rig.kv_items() if k[:1] != b"\x00")}


class Counter:
    """counts storage mutations while armed; can fail at the k-th one"""

    def __init__(self):
        self.armed = False
        self.n = 0
        self.fail_at = None
        self.exc = None

    def tick(self):
        if not self.armed:
            return
        if self.fail_at is not None and self.n == self.fail_at:
            self.n += 1
            raise self.exc
        self.n += 1


class Kill(BaseException):
    pass


async def open_rig(backend, counter, path=None, file_db=None):
    rig = H.Rig(backend, validators=[], path=path, file_db=file_db)
    await rig.open()
    if backend == "sql":
        import sqlalchemy as sa

        # faults are raised where the driver would raise them (inside the DBAPI call), so that they reach the relay the way
        # real engine errors do: wrapped by SQLAlchemy (sqlalchemy.exc.OperationalError), not as bare sqlite3 exceptions
        def do_execute(cursor, statement, parameters, context):
            counter.tick()

        def do_execute_no_params(cursor, statement, context):
            counter.tick()

        for name, fn in (("do_execute", do_execute), ("do_executemany", do_execute), ("do_execute_no_params", do_execute_no_params)):
            sa.event.listen(rig.storage.db.sync_engine, name, fn)
    else:
        import lmdb

        lmdb.FAULT_HOOK = lambda op, key: counter.tick()
    return rig


async def apply(rig, ev, counter):
    """apply one event with the counter armed; returns (ok, reason, mutations seen)"""
    counter.n = 0
    counter.armed = True
    try:
        if rig.backend == "kv":
            try:
                await rig.storage.add_event(json.loads(json.dumps(ev)))
                res = (True, "")
            except Exception as e:
                res = (False, str(e))
            rig.pump()  # Kill propagates from here
            await rig.settle()
        else:
            res = await rig.add(ev)
    finally:
        counter.armed = False
    return res[0], res[1], counter.n


class Faults(Sub):
    shards = {"quick": 8, "thorough": 16}

    def __init__(self, mode, quick, thorough):
        self.name = mode
        self.mode = "hypothesis"
        self.fault = mode
        self.examples = {"quick": quick, "thorough": thorough}
        self.rule = RULE

    def strategy(self, tier):
        return st.tuples(st.sampled_from(["kv", "sql"]), st_history()).map(list)

    def run_case(self, case):
        return H.run(self._run, case)

    async def _clean(self, backend, history):
        import lmdb

        c = Counter()
        rig = await open_rig(backend, c)
        try:
            dumps = [await raw(rig)]
            muts = []
            for ev in history:
                ok, reason, n = await apply(rig, ev, c)
                muts.append(n)
                dumps.append(await raw(rig))
            return dumps, muts
        finally:
            lmdb.FAULT_HOOK = None
            await rig.close()

    async def _run(self, case):
        import lmdb

        backend, history = case
        only = case[2] if len(case) > 2 else None   # replay of a single fault point: [i, k]
        viol = []
        nts = []
        evals = 0
        labels = ["backend:" + backend]
        S, muts = await self._clean(backend, history)
        without_cache = {}
        points = [(i, k) for i in range(len(history)) for k in range(muts[i])]
        if only:
            points = [tuple(only)]
        for (i, k) in points:
            evals += 1
            if muts[i] >= 3 and 1 <= k < muts[i] - 1:
                nts.append(jhash([backend, self.fault, history, i, k]))
            c = Counter()
            use_file = backend == "sql" and self.fault == "kill"
            rig = await open_rig(backend, c, file_db=True if use_file else None)
            w = None
            try:
                if backend == "sql" and self.fault == "error":
                    w = rig.conn("10.0.0.9")
                    await w.send(["REQ", "w", {"since": 1}])
                for ev in history[:i]:
                    await apply(rig, ev, c)
                c.fail_at = k
                if self.fault == "error":
                    c.exc = sqlite3.OperationalError("injected engine failure") if backend == "sql" else lmdb.Error("injected engine failure")
                else:
                    c.exc = Kill()
                nw = len(w.out) if w else 0
                died = False
                try:
                    ok, reason, _ = await apply(rig, history[i], c)
                except Kill:
                    died = True
                    ok = None
                c.fail_at = None
                if self.fault == "error":
                    got = await raw(rig)
                    if got != S[i]:
                        viol.append(V("%s-partial-effects-after-engine-error" % backend,
                                      "an engine error leaves exactly the state before the event",
                                      backend=backend, i=i, k=k, of=muts[i], event=history[i],
                                      diff=_diff(S[i], got)))
                    if backend == "sql":
                        if ok:
                            viol.append(V("sql-failed-event-acknowledged", "a failed event is not acknowledged", i=i, k=k))
                        if w and any(f[0] == "EVENT" and f[2]["id"] == history[i]["id"] for f in w.frames(nw)):
                            viol.append(V("sql-failed-event-broadcast", "nothing is broadcast for a rolled back event", i=i, k=k))
                    retried = not viol and (i + k) % 2 == 1
                    if retried:
                        # the client sends the failed event again: it applies as if the failure had never happened
                        labels.append("failed-event-resubmitted")
                        await apply(rig, history[i], c)
                        got = await raw(rig)
                        if rig.stuck or got != S[i + 1]:
                            viol.append(V("%s-failed-event-not-applied-when-resubmitted" % backend,
                                          "a failure while applying one event does not prevent later events (the same event, "
                                          "sent again) from being applied", backend=backend, i=i, k=k, of=muts[i],
                                          event=history[i], diff=_diff(S[i + 1], got), waiting=rig.stuck))
                    if not viol:
                        # later events still apply: compare with the clean run of the history without event i
                        for ev in history[i + 1:]:
                            await apply(rig, ev, c)
                            if rig.stuck:
                                break
                        if rig.stuck:
                            viol.append(V("%s-stuck-after-engine-error" % backend, "a failure does not prevent later events",
                                          i=i, k=k, waiting=rig.stuck))
                        else:
                            final = await raw(rig)
                            key = i
                            if retried:
                                key = "all"
                                without_cache[key] = S[-1]
                            if key not in without_cache:
                                d2, _ = await self._clean(backend, history[:i] + history[i + 1:])
                                without_cache[key] = d2[-1]
                                if backend == "kv":
                                    lmdb.FAULT_HOOK = lambda op, key_: c.tick()
                            if final != without_cache[key]:
                                viol.append(V("%s-later-events-differ-after-engine-error" % backend,
                                              "after a failed event the remaining events apply as if it had never been sent",
                                              i=i, k=k, diff=_diff(without_cache[key], final)))
                else:
                    # the process is gone: reopen the database
                    if backend == "kv":
                        path = rig.path
                        rig.storage.writer_queue.items.clear()
                        await rig.close()
                        rig = await open_rig(backend, c, path=path)
                        got = await raw(rig)
                    else:
                        dbfile = rig.file_db
                        try:
                            await rig.storage.db.dispose()
                        except Exception:
                            pass
                        ev_d, tags_d = H.sqlite_dump(dbfile)
                        got = {"events": ev_d, "index": tags_d}
                    if not died and muts[i] > k:
                        labels.append("kill-point-not-reached")
                    if got != S[i] and got != S[i + 1]:
                        viol.append(V("%s-partial-effects-after-kill" % backend,
                                      "after a kill the store is the state before or after the event, never in between",
                                      backend=backend, i=i, k=k, of=muts[i], event=history[i],
                                      diff_before=_diff(S[i], got), diff_after=_diff(S[i + 1], got)))
            finally:
                lmdb.FAULT_HOOK = None
                try:
                    if w and not w.task.done():
                        await w.disconnect()
                    await rig.close()
                except Exception:
                    pass
                if backend == "kv":
                    lmdb._reset(rig.path)
            if viol:
                viol[0]["detail"]["point"] = [i, k]
                break
        labels.append("points:%d" % len(points))
        if not viol and not only and backend == "kv":
            evals += await self._bursts(history, S, muts, viol, nts)
        if not viol and not only and backend == "sql" and self.fault == "error":
            evals += await self._repeated_errors(history, viol)
        return Result(viol, bool(nts), labels, sample={"backend": backend, "history": history, "mutations_per_event": muts},
                      evals=max(evals, 1), nt_hashes=nts)

    async def _bursts(self, history, S, muts, viol, nts):
        """LMDB: events i-1 and i are BOTH queued before the writer runs; the fault hits event i.
        The predecessor must be applied, the faulted event not (error) / atomically (kill)."""
        import lmdb

        n = 0
        for i in range(1, len(history)):
            for k in range(0, muts[i], max(1, muts[i] // 3)):
                n += 1
                if muts[i] >= 3 and 1 <= k < muts[i] - 1:
                    nts.append(jhash(["kv", self.fault, "burst", history, i, k]))
                c = Counter()
                rig = await open_rig("kv", c)
                try:
                    for ev in history[: i - 1]:
                        await apply(rig, ev, c)
                    for ev in history[i - 1: i + 1]:
                        try:
                            await rig.storage.add_event(json.loads(json.dumps(ev)))
                        except Exception:
                            pass
                    queued = rig.pending_writes()
                    c.n = 0
                    c.armed = True
                    # the predecessor performs muts[i-1] mutations when it was queued at all
                    c.fail_at = (muts[i - 1] if queued == 2 else 0) + k
                    c.exc = lmdb.Error("injected engine failure") if self.fault == "error" else Kill()
                    try:
                        rig.pump()
                    except Kill:
                        rig.storage.writer_queue.items.clear()
                    c.armed = False
                    c.fail_at = None
                    path = rig.path
                    if self.fault == "kill":
                        await rig.close()
                        rig = await open_rig("kv", c, path=path)
                    await rig.settle()
                    got = await raw(rig)
                    ok_states = [S[i]] if self.fault == "error" else [S[i], S[i + 1]]
                    if queued == 2 and got not in ok_states:
                        viol.append(V("kv-burst-not-isolated-after-%s" % ("engine-error" if self.fault == "error" else "kill"),
                                      "a fault in one event leaves the other events of a burst applied (each event is its own atomic step)",
                                      i=i, k=k, burst=[history[i - 1]["id"][:8], history[i]["id"][:8]],
                                      diff_vs_expected=_diff(S[i], got)))
                finally:
                    lmdb.FAULT_HOOK = None
                    await rig.close()
                    lmdb._reset(rig.path)
                if viol:
                    return n
        return n

    async def _repeated_errors(self, history, viol):
        """SQL: several events in a row hit an engine error; the next event must still be applied (no leaked slot/lock)."""
        import asyncio

        c = Counter()
        rig = await open_rig("sql", c)
        try:
            for j in range(6):
                ev = E.free(("%02x" % (0xa0 + j)) * 32, A, 1, E.T0 + 100 + j, [["t", "z"]], "fails%d" % j)
                c.fail_at = j % 2
                c.exc = sqlite3.OperationalError("injected engine failure")
                try:
                    await asyncio.wait_for(apply(rig, ev, c), 30)
                except asyncio.TimeoutError:
                    viol.append(V("sql-blocked-after-engine-errors", "a failure while applying one event does not prevent later events",
                                  after_failures=j, add_slot=getattr(rig.storage.add_slot, "_value", None)))
                    return 1
            c.fail_at = None
            last = E.free("bb" * 32, A, 1, E.T0 + 200, [["t", "z"]], "after the failures")
            try:
                ok, reason, _ = await asyncio.wait_for(apply(rig, last, c), 30)
            except asyncio.TimeoutError:
                viol.append(V("sql-blocked-after-engine-errors", "a failure while applying one event does not prevent later events",
                              after_failures=6, add_slot=getattr(rig.storage.add_slot, "_value", None)))
                return 1
            if not ok or last["id"] not in (await rig.dump()):
                viol.append(V("sql-event-after-failures-not-applied", "a failure while applying one event does not prevent later events",
                              ok=ok, reason=reason))
        finally:
            await rig.close()
        return 1


def _diff(a, b):
    ea, eb = a["events"], b["events"]
    return {"events_missing": sorted(set(ea) - set(eb)), "events_extra": sorted(set(eb) - set(ea)),
            "index_missing": [x for x in a["index"] if x not in b["index"]][:4],
            "index_extra": [x for x in b["index"] if x not in a["index"]][:4]}


class ChildKill(Sub):
    """real process death on a WAL SQLite file"""

    name = "sql-child-kill"
    examples = {"quick": 24, "thorough": 160}
    shards = {"quick": 8, "thorough": 16}
    rule = ("a child process replays the history on a file database and is killed with os._exit right before the "
            "k-th statement of event i, for a stratified third (thorough: all) of the fault points; the parent reopens "
            "the file with sqlite3; non-trivial as above")

    def strategy(self, tier):
        return st.tuples(st_history(), st.just(3 if tier == "quick" else 1)).map(list)

    def run_case(self, case):
        return H.run(self._run, case)

    async def _run(self, case):
        history, stride = case[0], case[1]
        only = case[2] if len(case) > 2 else None
        S, muts = await Faults("kill", 1, 1)._clean("sql", history)
        points = [(i, k) for i in range(len(history)) for k in range(muts[i])]
        points = [tuple(only)] if only else points[::stride]
        viol = []
        nts = []
        base = "/dev/shm" if os.access("/dev/shm", os.W_OK) else os.environ.get("VERIF_TMP", bootstrap.VERIF + "/out")
        for (i, k) in points:
            d = tempfile.mkdtemp(prefix="verif-c07-", dir=base)
            try:
                db = os.path.join(d, "nostr.sqlite3")
                cf = os.path.join(d, "case.json")
                json.dump({"db": db, "events": history, "i": i, "k": k}, open(cf, "w"))
                env = dict(os.environ, PYTHONPATH=bootstrap.VERIF, PYTHONDONTWRITEBYTECODE="1")
                p = subprocess.run([sys.executable, "-m", "vlib.crashchild", cf], cwd=bootstrap.VERIF, env=env,
                                   stdout=subprocess.PIPE, stderr=subprocess.STDOUT, timeout=120)
                if p.returncode != 137:
                    raise H.HarnessError("crash child ended with %s instead of dying at the kill point: %s" % (
                        p.returncode, p.stdout.decode("utf8", "replace")[-400:]))
                ev_d, tags_d = H.sqlite_dump(db)
                got = {"events": ev_d, "index": tags_d}
                if muts[i] >= 3 and 1 <= k < muts[i] - 1:
                    nts.append(jhash(["child", history, i, k]))
                if got != S[i] and got != S[i + 1]:
                    viol.append(V("sql-partial-effects-after-process-kill",
                                  "after a kill the store is the state before or after the event, never in between",
                                  i=i, k=k, of=muts[i], event=history[i], diff_before=_diff(S[i], got),
                                  diff_after=_diff(S[i + 1], got), point=[i, k]))
                    break
            finally:
                import shutil

                shutil.rmtree(d, ignore_errors=True)
        return Result(viol, bool(nts), ["points:%d" % len(points)],
                      sample={"history": history, "mutations_per_event": muts}, evals=max(len(points), 1), nt_hashes=nts)


SUBCHECKS = [Faults("error", 48, 384), Faults("kill", 48, 384), ChildKill()]
