"""
C08 - only an event's author can delete it (NIP-09).

Generated histories over 3 authors mixing regular events with kind-5 deletions whose e tags
reference own older / own newer / same-timestamp / foreign / unknown / duplicate / upper-case /
short / non-hex / bare ids, in any arrival order, both backends.  After every submission the raw
dump is compared with the one before:
  * removed  subset-of  {referenced by this deletion AND same pubkey}      (nothing else ever disappears)
  * removed  superset-of {referenced AND same pubkey AND strictly older than the deletion}
  * a removed event is served by no query (ids, authors) and not by get_event (/e/<id>)
"""
from hypothesis import strategies as st

from vlib import events as E
from vlib import harness as H
from vlib import refmodel as R
from vlib.core import Result, Sub, V

LEVEL = "exploration"
RULE = ("histories of regular events and kind-5 deletions; non-trivial = an accepted deletion references at "
        "least one own strictly older stored event and one stored foreign event; distinct by hash of the history")
ASSUMPTIONS = ["free mode (validators: []); SQLite only; LMDB engine modelled",
               "deletions that arrive before their target, same-timestamp and newer targets: either outcome accepted"]

AUTH = E.ADJ_HEX[3:6]
IDS = [("%02x" % i) * 32 for i in range(1, 13)]


@st.composite
def st_history(draw, maxn):
    """items are events, or ["view", id] (a lookup by id, as GET /e/<id> or a duplicate check does)"""
    n = draw(st.integers(3, maxn))
    hist = []
    used = []
    evs = []
    for i in range(n):
        eid = IDS[i % len(IDS)]
        a = draw(st.sampled_from(AUTH))
        ts = E.T0 + draw(st.integers(0, 6))
        if used and draw(st.integers(0, 2)) == 0:
            tags = []
            # usually start from one own and one foreign target (the interesting mix), then add arbitrary ones
            own = [e["id"] for e in evs if e["pubkey"] == a]
            foreign = [e["id"] for e in evs if e["pubkey"] != a]
            if own and foreign and draw(st.booleans()):
                tags += [["e", draw(st.sampled_from(own))], ["e", draw(st.sampled_from(foreign))]]
                ts = max(ts, E.T0 + 7)
            for _ in range(draw(st.integers(1, 4))):
                k = draw(st.integers(0, 13))
                tgt = draw(st.sampled_from(used))
                if k <= 6:
                    tags.append(["e", tgt])
                elif k == 7:
                    tags.append(["e", tgt.upper()])
                elif k == 8:
                    tags.append(["e", draw(st.sampled_from([tgt[:10], "zz" * 32, "", "not-hex", tgt + "00"]))])
                elif k == 9:
                    tags.append(["e"])
                elif k == 10:
                    tags.append(["e", "77" * 32])  # unknown id
                elif k <= 12:
                    # NIP-09 coordinate of a replaceable event: kind:pubkey:d (own or foreign)
                    t = draw(st.sampled_from(evs))
                    d = next((x[1] for x in t["tags"] if x[0] == "d" and len(x) > 1), "")
                    tags.append(["a", "%d:%s:%s" % (t["kind"], draw(st.sampled_from([t["pubkey"], a])), d)])
                else:
                    tags.append(["p", a])
            ev = E.free(eid, a, 5, ts, tags)
        else:
            kind = draw(st.sampled_from([1, 1, 4, 7, 30000, 10000, 0]))
            tags = draw(st.sampled_from([[], [["t", "a"]], [["e", IDS[0]]]]))
            if kind == 30000:
                tags = tags + [["d", draw(st.sampled_from(["x", "y"]))]]
            ev = E.free(eid, a, kind, ts, tags)
        hist.append(ev)
        evs.append(ev)
        used.append(eid)
        r = draw(st.integers(0, 9))
        if r == 0:
            hist.append(["view", draw(st.sampled_from(used))])
        elif r == 1:
            hist.append(dict(draw(st.sampled_from(evs))))  # resubmission
    return hist


def referenced(ev):
    strict, loose = set(), set()
    for t in ev["tags"]:
        if t and t[0] == "e" and len(t) > 1 and isinstance(t[1], str):
            loose.add(t[1].lower())
            if len(t[1]) == 64 and all(c in "0123456789abcdef" for c in t[1]):
                strict.add(t[1])
    return strict, loose


class Deletion(Sub):
    name = "deletion"
    examples = {"quick": 2400, "thorough": 19200}
    shards = {"quick": 12, "thorough": 16}
    rule = RULE

    def strategy(self, tier):
        return st.tuples(st.sampled_from(["kv", "sql"]), st_history(10 if tier == "quick" else 18)).map(list)

    def run_case(self, case):
        return H.run(self._run, case[0], case[1])

    async def _run(self, backend, history):
        viol = []
        nt = False
        labels = ["backend:" + backend]
        async with H.Rig(backend, validators=[]) as rig:
            seen_ids = set()
            for step, ev in enumerate(history):
                if isinstance(ev, list):
                    got = await rig.storage.get_event(ev[1])
                    cur = await rig.dump()
                    labels.append("view")
                    if (got is None) != (ev[1] not in cur):
                        viol.append(V("%s-get-event-disagrees-with-store" % backend,
                                      "/e/<id> serves exactly the stored events", step=step, id=ev[1],
                                      served=got is not None))
                        break
                    continue
                before = await rig.dump()
                ok, reason = await rig.add(ev)
                after = await rig.dump()
                if ev["id"] in seen_ids:
                    labels.append("resubmission")
                seen_ids.add(ev["id"])
                removed = [e for i, e in before.items() if i not in after]
                if ev["kind"] == 5:
                    strict, loose = referenced(ev)
                    malformed = any(t and t[0] == "e" and not (len(t) > 1 and isinstance(t[1], str) and len(t[1]) == 64
                                                                 and all(c in "0123456789abcdefABCDEF" for c in t[1]))
                                    for t in ev["tags"])
                    labels.append("deletion-accepted" if ok else "deletion-refused")
                    if malformed:
                        labels.append("deletion-with-malformed-e")
                else:
                    strict, loose = set(), set()
                    malformed = False
                for r in removed:
                    if R.address(r) is not None and R.address(r) == R.address(ev) and r["created_at"] <= ev["created_at"]:
                        continue  # replaced by a newer version of its own address (C09's subject)
                    by_coord = ev["kind"] == 5 and any(
                        t[0] == "a" and len(t) > 1 and isinstance(t[1], str) and t[1].split(":")[:2] == [str(r["kind"]), r["pubkey"]]
                        for t in ev["tags"] if t)
                    if ok and by_coord and r["pubkey"] == ev["pubkey"]:
                        continue  # deleting one's own replaceable event by coordinate is allowed by NIP-09
                    if not (ok and ev["kind"] == 5 and r["id"] in loose and r["pubkey"] == ev["pubkey"]):
                        why = ("not-a-deletion" if ev["kind"] != 5 else "refused" if not ok else
                               "foreign-author" if r["pubkey"] != ev["pubkey"] else "unreferenced")
                        viol.append(V("%s-wrongly-deleted:%s" % (backend, why),
                                      "a deletion removes only referenced events of its own author",
                                      step=step, event=ev, removed=r))
                if ok and ev["kind"] == 5:
                    own_older = [e for i, e in before.items() if i in strict and e["pubkey"] == ev["pubkey"]
                                 and e["created_at"] < ev["created_at"]]
                    foreign = [e for i, e in before.items() if i in strict and e["pubkey"] != ev["pubkey"]]
                    if own_older and foreign:
                        nt = True
                    for e in own_older:
                        if e["id"] in after:
                            viol.append(V("%s-own-older-not-deleted:%s" % (backend, "malformed-e-present" if malformed else "wellformed"),
                                          "an accepted deletion removes the referenced older events of its author",
                                          step=step, event=ev, kept=e))
                for r in removed:
                    got = await rig.query([{"ids": [r["id"]]}, {"authors": [r["pubkey"]]}])
                    if any(g["id"] == r["id"] for g in got):
                        viol.append(V("%s-deleted-still-served" % backend, "a deleted event is served by no query",
                                      step=step, id=r["id"]))
                    ge = await rig.storage.get_event(r["id"])
                    if ge is not None:
                        viol.append(V("%s-deleted-still-served-by-id" % backend, "a deleted event is not served by /e/<id>",
                                      step=step, id=r["id"]))
                if viol:
                    break
        return Result(viol, nt, labels)


SUBCHECKS = [Deletion()]
