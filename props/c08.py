"""
C08 - only an event's author can delete it (NIP-09).

Generated histories over 3 authors mixing regular events with kind-5 deletions whose e tags
reference own older / own newer / same-timestamp / foreign / unknown / duplicate / upper-case /
short / non-hex / bare ids, in any arrival order, both backends.  After every submission the raw
dump is compared with the one before:
  * removed  subset-of  {referenced by this deletion AND same pubkey}      (nothing else ever disappears)
  * removed  superset-of {referenced AND same pubkey AND strictly older than the deletion}
  * a removed event is served by no query (ids, authors) and not by get_event (/e/<id>)
"""
from hypothesis import strategies as st

from vlib import events as E
from vlib import harness as H
from vlib import refmodel as R
from vlib.core import Result, Sub, V

LEVEL = "exploration"
RULE = ("histories of regular events and kind-5 deletions; non-trivial = an accepted deletion references at "
        "least one own strictly older stored event and one stored foreign event; distinct by hash of the history")
ASSUMPTIONS = ["free mode (validators: []); SQLite only; LMDB engine modelled",
               "deletions that arrive before their target, same-timestamp and newer targets: either outcome accepted"]

AUTH = E.ADJ_HEX[3:6]
IDS = [("%02x" % i) * 32 for i in range(1, 13)]


@st.composite
def st_history(draw, maxn):
    """items are events, or ["view", id] (a lookup by id, as GET /e/<id> or a duplicate check does)"""
    n = draw(st.integers(3, maxn))
    hist = []
    used = []
    evs = []
    for i in range(n):
        eid = IDS[i % len(IDS)]
        a = draw(st.sampled_from(AUTH))
        ts = E.T0 + draw(st.integers(0, 6))
        if used and draw(st.integers(0, 2)) == 0:
            tags = []
            # usually start from one own and one foreign target (the interesting mix), then add arbitrary ones
            own = [e["id"] for e in evs if e["pubkey"] == a]
            foreign = [e["id"] for e in evs if e["pubkey"] != a]
            if own and foreign and draw(st.booleans()):
                tags += [["e", draw(st.sampled_from(own))], ["e", draw(st.sampled_from(foreign))]]
                ts = max(ts, E.T0 + 7)
            for _ in range(draw(st.integers(1, 4))):
                k = draw(st.integers(0, 13))
                tgt = draw(st.sampled_from(used))
                if k <= 6:
                    tags.append(["e", tgt])
                elif k == 7:
                    tags.append(["e", tgt.upper()])
                elif k == 8:
                    tags.append(["e", draw(st.sampled_from([tgt[:10], "zz" * 32, "", "not-hex", tgt + "00"]))])
                elif k == 9:
                    tags.append(["e"])
                elif k == 10:
                    # an id the relay has not seen: never used, or used LATER in this history by this or another author
                    tags.append(["e", draw(st.sampled_from(["77" * 32] + [IDS[(i + j) % len(IDS)] for j in (1, 2, 3)]))])
                elif k <= 12:
                    # NIP-09 coordinate of a replaceable event: kind:pubkey:d (own or foreign)
                    t = draw(st.sampled_from(evs))
                    d = next((x[1] for x in t["tags"] if x[0] == "d" and len(x) > 1), "")
                    tags.append(["a", "%d:%s:%s" % (t["kind"], draw(st.sampled_from([t["pubkey"], a])), d)])
                else:
                    tags.append(["p", a])
            ev = E.free(eid, a, 5, ts, tags)
        else:
            kind = draw(st.sampled_from([1, 1, 4, 7, 30000, 10000, 0]))
            tags = draw(st.sampled_from([[], [["t", "a"]], [["e", IDS[0]]]]))
            if draw(st.integers(0, 3)) == 0:
                # names another author of the history: in a NIP-26 delegation tag (the delegator is not the author: NIP-09
                # gives it no right to delete) or in a p tag
                o = draw(st.sampled_from([x for x in AUTH if x != a] or AUTH))
                tags = tags + [draw(st.sampled_from([["delegation", o, "kind=%d" % kind, "00" * 64], ["p", o]]))]
            if kind == 30000:
                tags = tags + [["d", draw(st.sampled_from(["x", "y"]))]]
            ev = E.free(eid, a, kind, ts, tags)
        hist.append(ev)
        evs.append(ev)
        used.append(eid)
        r = draw(st.integers(0, 9))
        if r == 0:
            hist.append(["view", draw(st.sampled_from(used))])
        elif r == 1:
            hist.append(dict(draw(st.sampled_from(evs))))  # resubmission
    # some runs of consecutive submissions arrive together (processed concurrently): only runs whose members do not refer
    # to each other, so that the order inside the run cannot matter
    out = []
    i = 0
    while i < len(hist):
        m = draw(st.sampled_from([1, 1, 1, 2, 3, 4]))
        run = hist[i:i + m]
        ok = m > 1 and len(run) == m and all(isinstance(e, dict) for e in run)
        if ok:
            ids = [e["id"] for e in run]
            refs = {x for e in run for x in referenced(e)[1]} if any(e["kind"] == 5 for e in run) else set()
            addrs = [R.address(e) for e in run if R.address(e) is not None]
            coords = any(t and t[0] == "a" for e in run for t in e["tags"])
            ok = len(set(ids)) == len(ids) and not (refs & set(ids)) and len(set(addrs)) == len(addrs) and not coords
        if ok:
            out.append(["together", run])
            i += m
        else:
            out.append(hist[i])
            i += 1
    return out


def referenced(ev):
    strict, loose = set(), set()
    for t in ev["tags"]:
        if t and t[0] == "e" and len(t) > 1 and isinstance(t[1], str):
            loose.add(t[1].lower())
            if len(t[1]) == 64 and all(c in "0123456789abcdef" for c in t[1]):
                strict.add(t[1])
    return strict, loose


async def _add_raw(rig, ev, token=None):
    """storage.add_event without settling in between (several of these run concurrently); result as Rig.add"""
    import json

    from nostr_relay.errors import StorageError, AuthenticationError

    try:
        _, changed = await rig.storage.add_event(json.loads(json.dumps(ev)), auth_token=token)
        return (bool(changed), "" if changed else "duplicate")
    except (StorageError, AuthenticationError) as e:
        return (False, str(e))
    except Exception as e:
        return (False, "EXC %s: %s" % (type(e).__name__, e))


class Deletion(Sub):
    name = "deletion"
    examples = {"quick": 2400, "thorough": 19200}
    shards = {"quick": 12, "thorough": 16}
    rule = RULE

    def strategy(self, tier):
        # third element: NIP-42 authentication is enabled (default actions: open to anonymous) and everything arrives on
        # an unauthenticated session - who is logged in does not matter for NIP-09, only who signed
        return st.tuples(st.sampled_from(["kv", "sql"]), st_history(10 if tier == "quick" else 18),
                         st.sampled_from([False, False, True])).map(list)

    def run_case(self, case):
        return H.run(self._run, case[0], case[1], case[2] if len(case) > 2 else False)

    async def _run(self, backend, history, auth_on=False):
        import asyncio

        viol = []
        nt = False
        labels = ["backend:" + backend]
        # concurrent submissions need real concurrency on SQL: a file database with several connections
        together = any(isinstance(x, list) and x[0] == "together" for x in history)
        cfg = {"authentication": {"enabled": True, "relay_urls": ["ws://relay.example"]}} if auth_on else {}
        token = {} if auth_on else None
        if auth_on:
            labels.append("auth-enabled-anonymous-session")
        async with H.Rig(backend, validators=[], config=cfg, file_db=True if (backend == "sql" and together) else None) as rig:
            seen_ids = set()
            deletions = []   # accepted kind-5 events so far
            for step, item in enumerate(history):
                if isinstance(item, list) and item[0] == "view":
                    got = await rig.storage.get_event(item[1])
                    cur = await rig.dump()
                    labels.append("view")
                    if (got is None) != (item[1] not in cur):
                        viol.append(V("%s-get-event-disagrees-with-store" % backend,
                                      "/e/<id> serves exactly the stored events", step=step, id=item[1],
                                      served=got is not None))
                        break
                    continue
                group = item[1] if isinstance(item, list) else [item]
                before = await rig.dump()
                if len(group) == 1:
                    results = [await rig.add(group[0], token=token)]
                else:
                    labels.append("together:%d" % len(group))
                    results = await asyncio.gather(*[_add_raw(rig, e, token) for e in group])
                    rig.pump()
                    await rig.settle()
                after = await rig.dump()
                removed = [e for i, e in before.items() if i not in after]
                info = []
                for ev, (ok, reason) in zip(group, results):
                    if ev["id"] in seen_ids:
                        labels.append("resubmission")
                    dup = ev["id"] in before
                    seen_ids.add(ev["id"])
                    if ev["kind"] == 5:
                        strict, loose = referenced(ev)
                        malformed = any(t and t[0] == "e" and not (len(t) > 1 and isinstance(t[1], str) and len(t[1]) == 64
                                                                     and all(c in "0123456789abcdefABCDEF" for c in t[1]))
                                        for t in ev["tags"])
                        labels.append("deletion-accepted" if ok else "deletion-refused")
                        if malformed:
                            labels.append("deletion-with-malformed-e")
                    else:
                        strict, loose = set(), set()
                        malformed = False
                    info.append((ev, ok, strict, loose, malformed, dup))
                for r in removed:
                    allowed = False
                    why = "not-a-deletion"
                    for ev, ok, strict, loose, malformed, dup in info:
                        if R.address(r) is not None and R.address(r) == R.address(ev) and r["created_at"] <= ev["created_at"]:
                            allowed = True  # replaced by a newer version of its own address (C09's subject)
                        by_coord = ev["kind"] == 5 and any(
                            t[0] == "a" and len(t) > 1 and isinstance(t[1], str) and t[1].split(":")[:2] == [str(r["kind"]), r["pubkey"]]
                            for t in ev["tags"] if t)
                        if ok and by_coord and r["pubkey"] == ev["pubkey"]:
                            allowed = True  # deleting one's own replaceable event by coordinate is allowed by NIP-09
                        if ok and ev["kind"] == 5 and r["id"] in loose and r["pubkey"] == ev["pubkey"]:
                            allowed = True
                        if ev["kind"] == 5:
                            why = ("refused" if not ok else "foreign-author" if (r["id"] in loose and r["pubkey"] != ev["pubkey"])
                                   else why if why == "foreign-author" else "unreferenced")
                    if not allowed:
                        viol.append(V("%s-wrongly-deleted:%s" % (backend, why),
                                      "a deletion removes only referenced events of its own author",
                                      step=step, events=group, removed=r))
                for ev, ok, strict, loose, malformed, dup in info:
                    if ok and ev["kind"] == 5:
                        own_older = [e for i, e in before.items() if i in strict and e["pubkey"] == ev["pubkey"]
                                     and e["created_at"] < ev["created_at"]]
                        foreign = [e for i, e in before.items() if i in strict and e["pubkey"] != ev["pubkey"]]
                        if own_older and foreign:
                            nt = True
                        for e in own_older:
                            if e["id"] in after:
                                viol.append(V("%s-own-older-not-deleted:%s" % (backend, ("malformed-e-present" if malformed else "wellformed")
                                                                                + (":concurrent" if len(group) > 1 else "")),
                                              "an accepted deletion removes the referenced older events of its author",
                                              step=step, event=ev, kept=e, together=len(group)))
                        deletions.append(ev)
                    # an accepted regular event stays out of the store only if its OWN author's deletion named it before
                    if (ok and not dup and ev["kind"] != 5 and R.address(ev) is None and not R.is_ephemeral(ev["kind"])
                            and ev["id"] not in after):
                        named_by = [d for d in deletions if ev["id"] in referenced(d)[1]]
                        if not any(d["pubkey"] == ev["pubkey"] for d in named_by):
                            viol.append(V("%s-accepted-event-suppressed:%s" % (backend, "foreign-deletion" if named_by else "no-deletion"),
                                          "only the author's deletion can keep an event out of the store",
                                          step=step, event=ev, named_by=[d["id"] for d in named_by]))
                        labels.append("arrived-after-its-deletion")
                    elif ok and ev["kind"] != 5 and any(ev["id"] in referenced(d)[1] for d in deletions):
                        labels.append("arrived-after-a-deletion-naming-it")
                for r in removed:
                    got = await rig.query([{"ids": [r["id"]]}, {"authors": [r["pubkey"]]}])
                    if any(g["id"] == r["id"] for g in got):
                        viol.append(V("%s-deleted-still-served" % backend, "a deleted event is served by no query",
                                      step=step, id=r["id"]))
                    ge = await rig.storage.get_event(r["id"])
                    if ge is not None:
                        viol.append(V("%s-deleted-still-served-by-id" % backend, "a deleted event is not served by /e/<id>",
                                      step=step, id=r["id"]))
                if viol:
                    break
        return Result(viol, nt, labels)


class Backlog(Sub):
    """LMDB: acknowledgements are sent before the writer thread applies anything - a backlog must not change the outcome"""

    name = "backlog"
    examples = {"quick": 600, "thorough": 4800}
    shards = {"quick": 8, "thorough": 16}
    rule = ("LMDB: a history of distinct events and deletions is applied twice - the writer run after every submission, and "
            "with runs of 2..6 submissions queued behind each other before the writer runs - and the raw dumps must be equal "
            "(the writer queue is first-in first-out); non-trivial = a queued run holds a deletion and, before it, an event "
            "of the same author that it names")

    def strategy(self, tier):
        def distinct(h):
            seen = set()
            out = []
            for x in h:
                for e in (x[1] if isinstance(x, list) and x[0] == "together" else [x]):
                    if isinstance(e, dict) and e["id"] not in seen:
                        seen.add(e["id"])
                        out.append(e)
            return out
        return st.tuples(st_history(10 if tier == "quick" else 18).map(distinct),
                         st.lists(st.integers(1, 6), min_size=12, max_size=12)).map(list)

    def run_case(self, case):
        return H.run(self._run, case)

    async def _run(self, case):
        history, sizes = case
        viol = []
        nt = False

        async def apply(groups):
            async with H.Rig("kv", validators=[]) as rig:
                for g in groups:
                    for ev in g:
                        await _add_raw(rig, ev)
                    rig.pump()
                    await rig.settle()
                return await rig.dump()

        groups = []
        i = 0
        for n in sizes:
            if i >= len(history):
                break
            groups.append(history[i:i + n])
            i += n
        if i < len(history):
            groups.append(history[i:])
        for g in groups:
            for j, d in enumerate(g):
                if d["kind"] == 5 and any(x["id"] in referenced(d)[0] and x["pubkey"] == d["pubkey"] for x in g[:j]):
                    nt = True
        one_by_one = await apply([[e] for e in history])
        queued = await apply(groups)
        if one_by_one != queued:
            only_seq = sorted(set(one_by_one) - set(queued))
            only_q = sorted(set(queued) - set(one_by_one))
            viol.append(V("kv-backlog-changes-outcome:%s" % ("deleted-event-survives" if only_q else "extra-removal"),
                          "a deletion removes the referenced events of its author whether or not they were still queued",
                          only_when_applied_one_by_one=only_seq, only_when_queued=only_q,
                          groups=[[e["id"][:4] + ":k%d" % e["kind"] for e in g] for g in groups]))
        return Result(viol, nt, ["groups:%d" % len(groups)])


class LongHistory(Sub):
    """The deleter has hundreds of events between the referenced one and the deletion: the reference is still honoured,
    nothing else of that long history (and no foreign event) goes."""
    name = "long-history"
    examples = {"quick": 24, "thorough": 192}
    shards = {"quick": 8, "thorough": 16}
    rule = ("non-trivial = >= 500 events of the deleting author newer than the referenced own event and older than the "
            "deletion, which also references a foreign event")

    mode = "enumerate"
    exhaustive = True

    def enumerate(self, tier):
        sizes = [100, 512, 513, 700] if tier == "quick" else [100, 511, 512, 513, 700, 1100, 2500]
        for backend in ("kv", "sql"):
            for n in sizes:
                for pos in (0, 1):
                    for ref_foreign in (False, True):
                        if ref_foreign or pos == 0:
                            yield [backend, n, pos, ref_foreign]

    def run_case(self, case):
        return H.run(self._run, case)

    async def _run(self, case):
        backend, n, pos, ref_foreign = case
        a, b = AUTH[0], AUTH[1]
        viol = []
        async with H.Rig(backend, validators=[]) as rig:
            target = E.free("aa" * 32, a, 1, E.T0, [["t", "a"]])
            foreign = E.free("bb" * 32, b, 1, E.T0 + 1, [])
            early = E.free("cc" * 32, a, 1, E.T0 - 5, [])
            for ev in (early, target, foreign):
                await rig.add(ev, pump=False)
            for i in range(n):
                await rig.add(E.free("%064x" % (0x5000 + i), a, 1 if i % 3 else 7, E.T0 + 2 + i, []), pump=False)
            await rig.settle()
            refs = [["e", target["id"]]]
            if ref_foreign:
                refs.insert(pos % 2, ["e", foreign["id"]])
            ok, why = await rig.add(E.free("dd" * 32, a, 5, E.T0 + n + 10, refs))
            await rig.settle()
            stored = await rig.dump()
            if target["id"] in stored:
                viol.append(V("%s-own-event-not-deleted:long-history" % backend, "a deletion removes the referenced events of its author",
                              fillers=n, ok=ok, why=why))
            gone = [i for i in [foreign["id"], early["id"]] + ["%064x" % (0x5000 + i) for i in range(n)] if i not in stored]
            if gone:
                viol.append(V("%s-wrongly-deleted:long-history" % backend, "a deletion removes only referenced events of its own author",
                              fillers=n, gone=[g[-6:] for g in gone[:5]]))
            if not viol:
                got = await rig.query([{"ids": [target["id"]]}])
                if got:
                    viol.append(V("%s-deleted-event-still-served:long-history" % backend, "a deleted event is no longer served", fillers=n))
        return Result(viol, n >= 500 and ref_foreign, ["backend:" + backend, "fillers:%d" % n])


SUBCHECKS = [Deletion(), Backlog(), LongHistory()]
