"""
C19 - no client input can crash, wedge or leak a connection, or disturb others.

A hostile connection A sends frames from a grammar of well-formed commands with typed mutations
(every JSON type at every position of EVENT/REQ/CLOSE/AUTH and of event and filter objects, dropped /
duplicated / reordered elements), invalid JSON, deep nesting and long strings; interleaved with probes
on A (if the relay kept it open) and with a well-behaved connection B holding an open subscription.
Oracle:
  * the handler task never ends with an exception and never reaches its outermost 'client_loop' handler
  * a connection the relay kept open still answers: REQ by id -> the event + EOSE, valid EVENT -> OK true
  * B's live pushes and probes are unaffected
  * after A is gone: no storage.clients entry, its handler and sender tasks are done, no task leaked,
    no task left waiting on a lock nobody holds
Rate limiting and authentication are switched on in part of the cases.
"""
import asyncio
import json

from hypothesis import strategies as st

from vlib import events as E
from vlib import harness as H
from vlib.core import Result, Sub, V

LEVEL = "exploration"
RULE = ("frame sequences from a typed-mutation grammar; non-trivial = at least one frame parses as JSON, passes "
        "the relay's message gate (list, >=2 items, known command) and deviates from a well-formed command in a "
        "typed position; distinct by hash of the case")
ASSUMPTIONS = ["virtual clock: exponential throttling of a misbehaving connection only advances time",
               "closing the offending connection (any close code) counts as clean handling",
               "SQL on a file database (cancelled in-flight queries kill the single shared :memory: connection)"]

KNOWN = E.make(3, 1, E.T0 - 10, [["t", "known"]], "known")

json_scalar = st.one_of(st.none(), st.booleans(), st.integers(-2**70, 2**70),
                        st.floats(allow_nan=False, allow_infinity=False, width=32),
                        st.text(max_size=5), st.sampled_from(["", "a", "\x00", "'", '"', "\\", "EVENT", "REQ", "id"]))
json_any = st.recursive(json_scalar, lambda c: st.one_of(st.lists(c, max_size=3),
                                                         st.dictionaries(st.text(max_size=3), c, max_size=3)),
                        max_leaves=8)


@st.composite
def st_event_obj(draw, n):
    # validly signed events, some with tag structures a relay may accept but that are not lists of strings
    ev = E.make(draw(st.integers(0, 2)), draw(st.sampled_from([1, 1, 0, 5, 7, 30000, 20000, 22242])),
                E.T0 + n, draw(st.sampled_from([[], [["t", "a"]], [["e", KNOWN["id"]]], [["d", "x"]],
                                                [["e", ["nested", "list"]]], [["t", 5], ["e", None]], [["t", {"a": 1}]],
                                                [["e", KNOWN["id"]], ["t", ["a"]], ["p", True]], [["t"], ["e"]],
                                                [["expiration", ["x"]]], [["d", ["x"]]], [["d", 7]]])), "m%d" % n)
    k = draw(st.integers(0, 9))
    if k <= 4:
        return ev
    ev = dict(ev)
    field = draw(st.sampled_from(list(ev) + ["extra"]))
    how = draw(st.integers(0, 3))
    if how == 0:
        ev.pop(field, None)
    elif field == "tags" and how == 1:
        ev["tags"] = draw(st.one_of(st.lists(json_any, max_size=3), st.just([[]]), st.just([[1, 2]]), st.just([["e"]]),
                                    st.just([["expiration"]]), st.just([["delegation", "x"]]),
                                    st.just([["delegation", "00" * 32, "c", "zz"]])))
    else:
        ev[field] = draw(json_any)
    return ev


@st.composite
def st_filter_obj(draw):
    f = {}
    for fld in draw(st.lists(st.sampled_from(["ids", "authors", "kinds", "since", "until", "limit", "#e", "#t", "search",
                                              "tags", "x"]), max_size=3, unique=True)):
        if draw(st.integers(0, 2)) == 0:
            f[fld] = draw(json_any)
        else:
            f[fld] = draw(st.sampled_from([[KNOWN["id"]], [1], 1, E.T0, ["a"], [["nested"]], [None], "x", [], {}]))
    return f


@st.composite
def st_frame(draw, n):
    k = draw(st.integers(0, 19))
    if k <= 4:
        msg = ["EVENT", draw(st_event_obj(n))]
    elif k <= 9:
        msg = ["REQ", draw(st.one_of(st.sampled_from(["a", "b", "c", "d", "e"]), json_any))] + draw(
            st.lists(st.one_of(st_filter_obj(), json_any), max_size=3))
    elif k == 10:
        msg = ["CLOSE", draw(st.one_of(st.sampled_from(["a", "b", "zz"]), json_any))]
    elif k == 11:
        msg = ["AUTH", draw(st.one_of(st_event_obj(n), json_any))]
    elif k == 12:
        msg = draw(json_any)
    elif k == 13:
        base = ["EVENT", draw(st_event_obj(n))]
        how = draw(st.integers(0, 3))
        msg = [base[0]] if how == 0 else base + base[1:] if how == 1 else base[::-1] if how == 2 else [draw(json_any)] + base[1:]
    elif k == 14:
        return draw(st.sampled_from(['', '[', '["EVENT",', '{"a":1}', 'NaN', '["REQ","a",{"kinds":[NaN]}]', '﻿["REQ","a",{}]',
                                     '["EVENT",{"id":"\\ud800"}]', '"\\ud800"', '[' * 2000 + ']' * 2000, 'null', '0', '"EVENT"',
                                     '["REQ","x",{"ids":["' + 'f' * 100000 + '"]}]', '["EVENT",' + '[' * 100000]))
    elif k == 15:
        msg = ["REQ", "big", {"ids": [KNOWN["id"]] * 2000}]
    elif k == 16:
        msg = ["EVENT", dict(E.make(0, 1, E.T0 + n, [], "z" * draw(st.sampled_from([1000, 100000, 1000000]))))]
    elif k == 17:
        msg = ["EVENT", draw(st_event_obj(n))]
        msg[1] = dict(msg[1], sig="00" * 64) if isinstance(msg[1], dict) else msg[1]
    else:
        msg = [draw(st.sampled_from(["EVENT", "REQ", "CLOSE", "AUTH", "COUNT", "event"]))] + draw(st.lists(json_any, max_size=3))
    return json.dumps(msg, ensure_ascii=draw(st.booleans()))


@st.composite
def st_case(draw):
    n = draw(st.integers(2, 14))
    frames = [draw(st_frame(i)) for i in range(n)]
    if draw(st.integers(0, 4)) == 0:
        # a well-formed but impatient client: REQ immediately followed by CLOSE (or a replacing REQ), many times
        k = draw(st.integers(3, 14))
        pos = draw(st.integers(0, n))
        second = draw(st.sampled_from([["CLOSE", "x"], ["REQ", "x", {"kinds": [1]}]]))
        burst = []
        for _ in range(k):
            burst += [json.dumps(["REQ", "x", {"kinds": [1]}]), json.dumps(second)]
        frames[pos:pos] = burst
        n = len(frames)
    if draw(st.integers(0, 3)) == 0:
        # a correct NIP-42 answer somewhere in the sequence (built at run time from the connection's challenge; only
        # meaningful when authentication is enabled): the connection changes identity while it holds subscriptions
        frames.insert(draw(st.integers(0, len(frames))), "@@VALID-AUTH@@%d" % draw(st.integers(0, 2)))
        n = len(frames)
    probes = draw(st.lists(st.integers(0, n), min_size=1, max_size=3, unique=True))
    return {"backend": draw(st.sampled_from(["kv", "sql"])), "auth": draw(st.sampled_from([False, False, True])),
            "limit": draw(st.sampled_from([None, None, "2/s", "1000/s"])), "frames": frames, "probe_at": sorted(probes),
            "turns": draw(st.sampled_from([0, 1, 3, 5]))}


def gate(raw):
    try:
        m = json.loads(raw)
    except (ValueError, RecursionError):
        return False
    return isinstance(m, list) and len(m) >= 2 and m[0] in ("EVENT", "REQ", "CLOSE", "AUTH")


class Robust(Sub):
    name = "robust"
    examples = {"quick": 1200, "thorough": 9600}
    shards = {"quick": 12, "thorough": 16}
    rule = RULE

    def strategy(self, tier):
        return st_case()

    def run_case(self, case):
        return H.run(self._run, case)

    async def probe(self, rig, c, who, counter, viol, limited=False):
        if c.closed is not None or c.task.done():
            return
        n0 = len(c.out)
        await c.send(["REQ", "probe", {"ids": [KNOWN["id"]]}])
        fr = c.frames(n0)
        if rig.stuck:
            viol.append(V("stuck-on-lock", "later well-formed commands are answered", who=who, waiting=rig.stuck))
            return
        if c.closed is not None or c.task.done():
            viol.append(V("probe-closed-connection", "a well-formed REQ does not close the connection", who=who, code=c.closed))
            return
        if limited and any(f[0] == "NOTICE" and "rate" in f[1] for f in fr):
            return
        ok = any(f[0] == "EVENT" and f[1] == "probe" and f[2]["id"] == KNOWN["id"] for f in fr) and any(
            f[0] == "EOSE" and f[1] == "probe" for f in fr)
        if not ok and not any(f[0] == "NOTICE" and ("too many" in f[1] or "restricted" in f[1]) for f in fr):
            viol.append(V("probe-req-not-answered", "a kept-open connection still answers a REQ", who=who, frames=fr[:4]))
        await c.send(["CLOSE", "probe"])
        counter[0] += 1
        ev = E.make(4, 1, E.T0 + 1000 + counter[0], [], "probe%d" % counter[0])
        n0 = len(c.out)
        await c.send(["EVENT", ev])
        fr = c.frames(n0)
        if limited and any(f[0] == "OK" and "rate" in str(f[3]) for f in fr):
            return
        if not any(f[0] == "OK" and f[1] == ev["id"] and f[2] is True for f in fr) and c.closed is None:
            if not any(f[0] == "OK" and "restricted" in str(f[3]) for f in fr):
                viol.append(V("probe-event-not-accepted", "a kept-open connection still accepts a valid EVENT", who=who, frames=fr[:4]))

    async def _run(self, case):
        from nostr_relay.rate_limiter import RateLimiter

        backend = case["backend"]
        viol = []
        labels = ["backend:" + backend]
        cfg = {}
        if case["auth"]:
            cfg["authentication"] = {"enabled": True, "relay_urls": ["ws://localhost:6969"]}
            labels.append("auth")
        async with H.Rig(backend, config=cfg, file_db=True if backend == "sql" else None) as rig:
            await rig.add(KNOWN)
            counter = [0]
            b = rig.conn("10.0.0.2")
            await b.send(["REQ", "watch", {"kinds": [1], "since": E.T0 + 500}])
            await b.send(["REQ", "watchtags", {"#e": [KNOWN["id"]], "#t": ["a"], "#p": [E.PKS[0]], "#d": ["x"]}])
            await rig.settle()
            base_tasks = len([t for t in asyncio.all_tasks() if not t.done()])
            rl = RateLimiter({"ip": {"EVENT": case["limit"], "REQ": case["limit"]}}) if case["limit"] else None
            if rl:
                labels.append("limit:" + case["limit"])
            subs_before = sum(len(v) for v in rig.storage.clients.values())
            a = rig.conn("10.0.0.1", rate_limiter=rl)
            nt = False
            for i, raw in enumerate(case["frames"]):
                if i in case["probe_at"]:
                    await rig.settle()  # hostile frames fed so far are fully handled before probing
                    await self.probe(rig, a, "A", counter, viol, limited=bool(rl))
                    await self.probe(rig, b, "B", counter, viol)
                if a.closed is not None or a.task.done():
                    labels.append("closed-by-relay")
                    break
                if raw.startswith("@@VALID-AUTH@@"):
                    first = a.frames()[:1]
                    if not (first and first[0][0] == "AUTH"):
                        continue   # authentication is off: no challenge was sent
                    labels.append("valid-auth-mid-sequence")
                    raw = json.dumps(["AUTH", E.make(int(raw[-1]), 22242, int(rig.clock.now), [
                        ["relay", "ws://localhost:6969"], ["challenge", first[0][1]]], "")])
                if gate(raw):
                    nt = True
                a.feed(raw, case["turns"])
                if i % 2:
                    await rig.settle()
                if rig.stuck or viol:
                    break
            await rig.settle()
            if rig.stuck:
                viol.append(V("stuck-on-lock", "tasks finish", waiting=rig.stuck))
            if not viol:
                await self.probe(rig, a, "A", counter, viol, limited=bool(rl))
                await self.probe(rig, b, "B", counter, viol)
            # B's live subscription still works
            if not viol:
                counter[0] += 1
                ev = E.make(5, 1, E.T0 + 2000 + counter[0], [], "for-b")
                n0 = len(b.out)
                c3 = rig.conn("10.0.0.3")
                await c3.send(["EVENT", ev])
                if not any(f[0] == "EVENT" and f[1] == "watch" and f[2]["id"] == ev["id"] for f in b.frames(n0)):
                    viol.append(V("bystander-lost-live-push", "other connections are unaffected", frames=b.frames(n0)[:3]))
                await c3.disconnect()
            # A's end
            if not a.task.done():
                a.feed(None)
                await rig.settle()
            if not a.task.done():
                viol.append(V("handler-does-not-finish", "when a connection ends its tasks finish"))
            else:
                if a.task.exception() is not None:
                    viol.append(V("handler-raised", "no exception escapes the connection handler", exc=repr(a.task.exception())))
                if any(m == "client_loop" for m, _ in a.log.exceptions):
                    viol.append(V("handler-outer-exception", "no exception escapes the command loop",
                                  exc=a.log.exceptions[-1][1][-400:]))
                from props.c13 import _client_id

                subs_after = sum(len(v) for v in rig.storage.clients.values())
                if (_client_id(rig, a) is not None and rig.storage.clients.get(_client_id(rig, a))) or subs_after > subs_before:
                    viol.append(V("subscriptions-leaked", "when a connection ends all its subscriptions are dropped",
                                  registered_before=subs_before, registered_after=subs_after))
                await rig.settle()
                left = len([t for t in asyncio.all_tasks() if not t.done()])
                if left > base_tasks and not rig.stuck:
                    names = sorted(str(t.get_coro().__qualname__) for t in asyncio.all_tasks() if not t.done())
                    viol.append(V("tasks-leaked", "when a connection ends its tasks finish", before=base_tasks, after=left,
                                  tasks=names[:8]))
                if rig.stuck:
                    viol.append(V("stuck-on-lock", "tasks finish", waiting=rig.stuck))
            await b.disconnect()
        return Result(viol, nt, labels)


class AsgiStack(Sub):
    """the same grammar through the whole falcon ASGI stack (create_app, NostrAPI.on_websocket, JSON handler)"""

    name = "asgi-stack"
    examples = {"quick": 240, "thorough": 1920}
    shards = {"quick": 8, "thorough": 16}
    rule = ("frames sent through falcon.testing.ASGIConductor.simulate_ws to create_app(storage); same probes; "
            "non-trivial as for 'robust'")

    def strategy(self, tier):
        return st.tuples(st.sampled_from(["kv", "sql"]), st.lists(st.integers(0, 10**6), min_size=2, max_size=8).flatmap(
            lambda seeds: st.tuples(*[st_frame(i) for i in range(len(seeds))]))).map(lambda t: [t[0], list(t[1])])

    def run_case(self, case):
        return H.run(self._run, case)

    async def _drain(self, ws, spins=40):
        loop = asyncio.get_running_loop()
        quiet = 0
        n = len(ws._collected_server_events)
        for _ in range(20000):
            await asyncio.sleep(0)
            live = [h for h in loop._scheduled if not h._cancelled and h._when - loop.time() < 1e9]
            if live:
                loop.jump_to_next_timer()
                quiet = 0
                continue
            if ws._collected_client_events or len(ws._collected_server_events) != n:
                n = len(ws._collected_server_events)
                quiet = 0
                continue
            me = asyncio.current_task()
            busy = False
            for t in asyncio.all_tasks(loop):
                if t is me or t.done():
                    continue
                ch = H._chain(t)
                names = [n for n, _ in ch]
                if ch and names[-1] not in ("sleep", "__sleep0", "get", "wait", "_emit", "_receive", "_run") and (
                        "receive_text" not in names):
                    busy = True  # e.g. waiting for the database thread
            if busy:
                import time as _t

                _t.sleep(0.0003)
                quiet = 0
                continue
            quiet += 1
            if quiet >= spins:
                return
        raise H.HarnessError("asgi drain: no quiescence")

    async def _run(self, case):
        import falcon.testing
        from nostr_relay import web

        backend, frames = case
        viol = []
        nt = False
        async with H.Rig(backend, config={"message_timeout": 10**14}, file_db=True if backend == "sql" else None) as rig:
            await rig.add(KNOWN)
            app = web.create_app(storage=rig.storage)
            cond = falcon.testing.ASGIConductor(app)
            closed_by_relay = False
            try:
                async with cond.simulate_ws("/") as ws:
                    for raw in frames:
                        if gate(raw):
                            nt = True
                        if ws.closed:
                            break
                        await ws.send_text(raw)
                        await self._drain(ws)
                    if ws.closed:
                        closed_by_relay = True
                    else:
                        ws._collected_server_events.clear()
                        await ws.send_text(json.dumps(["REQ", "probe", {"ids": [KNOWN["id"]]}]))
                        await self._drain(ws)
                        got = []
                        for e in list(ws._collected_server_events):
                            if e.get("text"):
                                try:
                                    got.append(json.loads(e["text"]))
                                except ValueError:
                                    viol.append(V("frame-not-json", "every frame parses as JSON", raw=e["text"][:200]))
                        if not ws.closed:
                            ok = any(f[0] == "EVENT" and f[1] == "probe" for f in got) and any(
                                f[0] == "EOSE" and f[1] == "probe" for f in got)
                            if not ok and not any(f[0] == "NOTICE" for f in got):
                                viol.append(V("asgi-probe-req-not-answered", "a kept-open connection still answers a REQ",
                                              frames=got[:4]))
                        if not ws.closed:
                            await ws.close()
            except falcon.WebSocketDisconnected:
                closed_by_relay = True
            except H.HarnessError:
                raise
            except Exception as e:
                viol.append(V("asgi-app-raised", "no exception escapes the application", exc=repr(e)[:300]))
            await rig.settle()
            if rig.stuck:
                viol.append(V("stuck-on-lock", "tasks finish", waiting=rig.stuck))
            if any(len(v) for v in rig.storage.clients.values()):
                viol.append(V("subscriptions-leaked", "when a connection ends all its subscriptions are dropped"))
        return Result(viol, nt, ["backend:" + backend] + (["closed-by-relay"] if closed_by_relay else []))


class MidDelivery(Sub):
    """a client that asks for a large result and goes away while it is being delivered, repeatedly"""

    name = "mid-delivery-disconnect"
    examples = {"quick": 32, "thorough": 256}
    shards = {"quick": 8, "thorough": 16}
    rule = ("300-500 stored events; 10-14 connections each send a REQ matching all of them and disconnect after a drawn number "
            "of loop turns (before, during or after delivery); then a bystander's REQ and EVENT must be answered and no task "
            "may be left over or left waiting on a lock; non-trivial = at least one disconnect fell inside a delivery")

    def strategy(self, tier):
        return st.tuples(st.sampled_from(["kv", "sql"]), st.integers(300, 500), st.integers(10, 14),
                         st.lists(st.sampled_from([0, 1, 2, 3, 5, 8, 20]), min_size=14, max_size=14)).map(list)

    def run_case(self, case):
        return H.run(self._run, case)

    async def _run(self, case):
        backend, n_events, n_conns, turns = case
        viol = []
        async with H.Rig(backend, validators=[], file_db=True if backend == "sql" else None) as rig:
            for i in range(n_events):
                await rig.add(E.free("%064x" % (i + 1), E.PKS[0], 1, E.T0 + i, [], "bulk"), pump=False)
            rig.pump()
            await rig.settle()
            await rig.settle()
            base_tasks = len([t for t in asyncio.all_tasks() if not t.done()])
            inside = False
            for j in range(n_conns):
                c = rig.conn("10.0.1.%d" % j)
                c.send_turns = 1 + (j % 2)
                c.feed(["REQ", "all", {"kinds": [1], "limit": 1000}])
                c.feed(None, turns[j] * 10)
                for _ in range(turns[j] * 10 + 2):
                    await asyncio.sleep(0)
                if 0 < len(c.out) < n_events:
                    inside = True
            await rig.settle()
            if rig.stuck:
                viol.append(V("stuck-on-lock", "when a connection ends its tasks finish", waiting=rig.stuck))
            left = [t for t in asyncio.all_tasks() if not t.done() and t is not asyncio.current_task()]
            if not viol and len(left) + 1 > base_tasks:
                names = sorted(str(getattr(t.get_coro(), "__qualname__", t)) for t in left)
                viol.append(V("tasks-leaked", "when a connection ends all its subscriptions are dropped and its tasks finish",
                              before=base_tasks, after=len(left) + 1, tasks=names[:6]))
            if not viol:
                b = rig.conn("10.0.2.1")
                fr = await b.send(["REQ", "probe", {"ids": ["%064x" % 1]}])
                if rig.stuck or not any(json.loads(x)[0] == "EOSE" for x in fr):
                    viol.append(V("bystander-req-not-answered", "other connections are unaffected", waiting=rig.stuck, frames=fr[:2]))
                fr = await b.send(["EVENT", E.free("ee" * 32, E.PKS[1], 1, E.T0 + 9999, [], "after")])
                if not any(json.loads(x)[0] == "OK" and json.loads(x)[2] is True for x in fr):
                    viol.append(V("bystander-event-not-accepted", "other connections are unaffected", frames=fr[:2]))
                await b.disconnect()
        return Result(viol, inside, ["backend:" + backend])


class AbandonedQuery(Sub):
    """a stored query is abandoned (CLOSE, replacement, disconnect, hostile frame) while matching events keep arriving"""

    name = "abandoned-query"
    examples = {"quick": 160, "thorough": 1280}
    shards = {"quick": 8, "thorough": 16}
    rule = ("connection A sends a REQ whose stored query is kept in flight (LMDB: the query job is held back; SQL: all query "
            "slots are taken); 0..3 matching events are accepted from B meanwhile; A then sends CLOSE / a replacing REQ / a "
            "hostile frame / disconnects, before or after the query is let go; finally B's EVENT and REQ must be answered, "
            "nothing may wait on a lock for ever and no task may be left over; non-trivial = an event was accepted while the "
            "query was in flight and A abandoned it before it was let go")

    def strategy(self, tier):
        return st.tuples(st.sampled_from(["kv", "sql"]), st.integers(0, 3),
                         st.sampled_from(["close", "replace", "disconnect", "hostile", "nothing"]), st.booleans(),
                         st.integers(0, 30)).map(list)

    def run_case(self, case):
        return H.run(self._run, case)

    async def _run(self, case):
        backend, n_live, ending, before_release, n_stored = case
        viol = []
        async with H.Rig(backend, validators=[], file_db=True if backend == "sql" else None) as rig:
            for i in range(n_stored):
                await rig.add(E.free("%064x" % (i + 1), E.PKS[0], 1, E.T0 + i, [], "stored"))
            await rig.settle()
            base_tasks = len([t for t in asyncio.all_tasks() if not t.done()])
            a = rig.conn("10.0.3.1")
            b = rig.conn("10.0.3.2")
            await rig.settle()
            pool = rig.storage.query_pool if backend == "kv" else None
            if pool is not None:
                pool.park = True
            else:
                await rig.hold_query_slots()

            def let_go():
                if pool is not None:
                    pool.park = False
                    pool.release_all()
                else:
                    rig.release_query_slots()

            async def turns(n=12):
                import time as _t
                for _ in range(n):
                    await asyncio.sleep(0)
                    if backend == "sql":
                        _t.sleep(0.0003)

            a.feed(["REQ", "x", {"kinds": [1]}])
            await turns()
            for j in range(n_live):
                b.feed(["EVENT", E.free("%064x" % (0xaa00 + j), E.PKS[1], 1, E.T0 + 500 + j, [], "live")])
                await turns()
            if not before_release:
                let_go()
                await turns(3)
            if ending == "close":
                a.feed(["CLOSE", "x"])
            elif ending == "replace":
                a.feed(["REQ", "x", {"kinds": [2]}])
            elif ending == "disconnect":
                a.feed(None)
            elif ending == "hostile":
                a.feed('["REQ", "x", {"kinds": [1]}')   # truncated JSON
                a.feed(["CLOSE", "x"])
            await turns()
            let_go()
            await rig.settle()
            if rig.stuck:
                viol.append(V("stuck-on-lock", "tasks finish", waiting=rig.stuck, case=case))
            if not viol:
                fr = await b.send(["EVENT", E.free("ee" * 32, E.PKS[1], 1, E.T0 + 9999, [], "after")])
                if rig.stuck or not any(json.loads(x)[0] == "OK" and json.loads(x)[2] is True for x in fr):
                    viol.append(V("bystander-event-not-accepted", "other connections are unaffected", waiting=rig.stuck,
                                  frames=fr[:2], case=case))
            if not viol:
                fr = await b.send(["REQ", "probe", {"ids": ["ee" * 32]}])
                if rig.stuck or not any(json.loads(x)[0] == "EOSE" for x in fr):
                    viol.append(V("bystander-req-not-answered", "other connections are unaffected", waiting=rig.stuck, frames=fr[:2]))
            for c in (a, b):
                if not c.task.done():
                    c.feed(None)
            await rig.settle()
            for c in (a, b):
                if not c.task.done():
                    if not viol:
                        viol.append(V("handler-does-not-finish", "when a connection ends its tasks finish", waiting=rig.stuck, case=case))
                    c.task.cancel()
            await turns(20)
            left = [t for t in asyncio.all_tasks() if not t.done() and t is not asyncio.current_task()]
            if not viol and len(left) + 1 > base_tasks:
                names = sorted(str(getattr(t.get_coro(), "__qualname__", t)) for t in left)
                viol.append(V("tasks-leaked", "when a connection ends all its subscriptions are dropped and its tasks finish",
                              before=base_tasks, after=len(left) + 1, tasks=names[:6]))
        return Result(viol, bool(n_live and before_release and ending != "nothing"), ["backend:" + backend, "ending:" + ending])


@st.composite
def st_case_cg(draw):
    # short sequences (throughput matters for a coverage-guided campaign); besides the typed-mutation grammar,
    # free text and free JSON frames, which is where byte-level mutation has room to move
    n = draw(st.integers(1, 6))
    frames = []
    for i in range(n):
        k = draw(st.integers(0, 5))
        if k <= 2:
            frames.append(draw(st_frame(i)))
        elif k == 3:
            frames.append(draw(st.text(max_size=120)))
        else:
            frames.append(json.dumps([draw(st.sampled_from(["EVENT", "REQ", "CLOSE", "AUTH"]))] + draw(st.lists(json_any, min_size=1, max_size=4))))
    return {"backend": draw(st.sampled_from(["kv", "sql"])), "auth": draw(st.sampled_from([False, False, True])),
            "limit": draw(st.sampled_from([None, None, None, "1000/s"])), "frames": frames, "probe_at": [len(frames)],
            "turns": draw(st.sampled_from([0, 1]))}


class RobustCoverageGuided(Robust):
    """The 'robust' oracle driven by libFuzzer through atheris: the fuzzer mutates the byte string Hypothesis decodes
    into a case (fuzz_one_input) and keeps inputs that reach new edges of nostr_relay (bytecode-instrumented at import).
    Falls back to plain Hypothesis generation when atheris could not be installed by MANIFEST.setup_cmd."""
    name = "robust-coverage-guided"
    mode = "cgfuzz"
    examples = {"quick": 960, "thorough": 1920}
    shards = {"quick": 8, "thorough": 16}
    rule = RULE + "; engine: atheris/libFuzzer edge coverage of nostr_relay over Hypothesis' fuzz_one_input"

    def strategy(self, tier):
        return st_case_cg()


SUBCHECKS = [Robust(), AsgiStack(), MidDelivery(), AbandonedQuery(), RobustCoverageGuided()]
