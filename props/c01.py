"""
C01 - a REQ is answered only with accepted events that match one of its filters;
filter contents are pure data.

Sub-checks
  soundness  histories (incl. replacements, deletions) x hostile filter lists through
             storage.subscribe, run_single_query and the websocket handler on both
             backends; every returned object must be a stored event, field-for-field, and
             may-match a filter as written.
  skeleton   metamorphic: the SQL text (literals blanked by a small SQLite lexer) and the
             source of the LMDB residual predicate (constants blanked) of a hostile filter
             equal those of its benign twin (same shape, harmless names/values).
"""
import ast
import asyncio
import json
import re

from hypothesis import strategies as st

from vlib import events as E
from vlib import harness as H
from vlib import qgen
from vlib import refmodel as R
from vlib.core import Result, Sub, V

LEVEL = "exploration"
RULE = ("hostile filter grammar (every JSON type at every position, SQL/Python metacharacters, NUL, "
        "unicode names) over stores with deletions and replacements; non-trivial = the REQ was served, "
        "the store holds an event matching no filter, and a filter holds a hostile value or malformed "
        "condition; distinct by hash of the case")
ASSUMPTIONS = [
    "SQLite only; LMDB engine modelled",
    "malformed conditions (wrong JSON types) may be ignored, coerced or rejected by the relay - only "
    "well-formed conditions constrain the answer",
]

HOSTILE = ["'", "''", "\\", '"', "%", "_", "x' OR '1'='1", "') OR 1=1) --", " OR 1=1)) --", ":x", "a :b",
           "\x00", "a\x00b", "\U0001F600", "é", "", " ", "{0}", "%s", "__import__('os')", "'+'", "\n", "]", "),(",
           qgen.LONG, qgen.LONG + "x", qgen.LONG + "'"]
NAME_CHARS = ["t", "e", "p", "'", '"', "\\", "\x00", "é", "%", ":", ")", " ", "\U0001F600"]

json_scalar = st.one_of(st.none(), st.booleans(), st.integers(-2**70, 2**70),
                        st.floats(allow_nan=False, allow_infinity=False, width=32),
                        st.sampled_from(HOSTILE), st.text(max_size=6))
json_any = st.recursive(json_scalar, lambda c: st.one_of(st.lists(c, max_size=3),
                                                         st.dictionaries(st.text(max_size=3), c, max_size=2)),
                        max_leaves=6)


@st.composite
def st_hostile_filter(draw, store):
    f = {}
    ids = [e["id"] for e in store] or ["00" * 32]
    pks = [e["pubkey"] for e in store] or ["00" * 32]
    hexish = lambda pool: E.weighted(
        (6, st.sampled_from(pool)), (1, st.sampled_from(pool).map(str.upper)),
        (1, st.sampled_from(pool).map(lambda s: s[:10])), (1, st.sampled_from(pool).map(lambda s: s + "00")),
        # a stored value with something appended: one more hex digit (odd length), a quote + SQL, a wildcard, NUL
        (3, st.tuples(st.sampled_from(pool), st.sampled_from(
            ["0", "a", "f", "0" * 63, "' or '1' like '1", "' OR 1=1 --", "%", "_", "\x00", "'", " ", "\n"])).map("".join)),
        (1, st.sampled_from(HOSTILE)), (1, st.just("zz" * 32)), (1, json_any))
    fields = draw(st.lists(st.sampled_from(["ids", "authors", "kinds", "since", "until", "limit", "tag", "tag",
                                            "longtag", "tags", "unknown", "search"]),
                           min_size=1, max_size=4, unique=True))
    for fld in fields:
        if fld in ("ids", "authors"):
            pool = ids if fld == "ids" else pks
            f[fld] = draw(E.weighted((8, st.lists(hexish(pool), max_size=3)), (1, json_any)))
        elif fld == "kinds":
            k = E.weighted((6, st.sampled_from([e["kind"] for e in store] or [1])),
                           (2, st.sampled_from(["1", 1.0, True, -1, 2**70, None, "x", 1.5])), (1, json_any))
            f["kinds"] = draw(E.weighted((8, st.lists(k, max_size=3)), (1, json_any)))
        elif fld in ("since", "until"):
            f[fld] = draw(E.weighted(
                (6, st.sampled_from([E.T0 - 2, E.T0 - 1, E.T0, E.T0 + 1, E.T0 + 2, 0, 1])),
                (3, st.sampled_from(["1700000000", 1.7e9, -1, 2**70, None, True, "x", 2145934800, [E.T0]]))))
        elif fld == "limit":
            f["limit"] = draw(st.sampled_from([0, 1, 5, -1, "5", None, 2**70, 1.5, [1]]))
        elif fld == "tag":
            name = draw(st.sampled_from(NAME_CHARS))
            present = [t[1] for e in store for t in e["tags"] if len(t) > 1 and t[0] == name and isinstance(t[1], str)]
            near = [p + x for p in (present or ["a"]) for x in ("x", "'", "\x00", " ")] + [
                p[:-1] for p in present if p] + [p.upper() for p in present]
            val = E.weighted((4, st.sampled_from(present or ["a"])), (3, st.sampled_from(near)),
                             (4, st.sampled_from(HOSTILE + qgen.QVALS)), (1, json_any))
            f["#" + name] = draw(E.weighted((9, st.lists(val, max_size=3)), (1, json_any)))
        elif fld == "longtag":
            f["#" + draw(st.sampled_from(["ab", "expiration", "delegation", ""]))] = draw(st.lists(st.sampled_from(HOSTILE), max_size=2))
        elif fld == "tags":
            f["tags"] = draw(json_any)
        elif fld == "unknown":
            f[draw(st.sampled_from(["foo", "IDS", "", "kinds ", "'"]))] = draw(json_any)
        elif fld == "search":
            f["search"] = draw(st.sampled_from(HOSTILE))
    return f


SUFFIXES = ["0", "a", "f", "0" * 63, "' or '1' like '1", "' or 1=1 or '' like '", "%' or 'a%' like 'a", "' OR 1=1 --", "%", "_",
            "\x00", "'", " ", "\n", "') or ('1' like '1", "\\' or 1=1 --"]


@st.composite
def st_suffixed_filter(draw, store):
    """one otherwise clean filter whose ids / authors / tag list holds a stored value with something appended (longer than a
    full id, odd number of hex digits, quote + balanced SQL, wildcard): nothing but that entry can get it refused"""
    ev = draw(st.sampled_from(store))
    fld = draw(st.sampled_from(["ids", "ids", "authors", "authors", "#e", "#p", "#t"]))
    base = ev["id"] if fld in ("ids", "#e") else ev["pubkey"] if fld in ("authors", "#p") else "a"
    vals = [base + draw(st.sampled_from(SUFFIXES))]
    if draw(st.booleans()):
        vals.insert(draw(st.integers(0, 1)), draw(st.sampled_from([e["id"] if fld in ("ids", "#e") else e["pubkey"] for e in store])))
    f = {fld: vals}
    extra = draw(st.sampled_from([None, None, "kinds", "since", "limit"]))
    if extra == "kinds":
        f["kinds"] = [draw(st.sampled_from(store))["kind"]]
    elif extra == "since":
        f["since"] = E.T0 - 1000
    elif extra == "limit":
        f["limit"] = 5
    return f


@st.composite
def st_case(draw):
    backend = draw(st.sampled_from(["kv", "sql"]))
    store = draw(qgen.st_store(max_events=12, regular_only=False, delegation=True))
    # deletions: kind-5 events referencing ids of the store
    for _ in range(draw(st.integers(0, 2))):
        tgt = draw(st.sampled_from(store))
        store.append(E.free(draw(st.binary(min_size=32, max_size=32)).hex(), tgt["pubkey"], 5,
                            draw(st.sampled_from(qgen.TS)) + 3, [["e", tgt["id"]]]))
    nf = draw(st.integers(1, 4))
    filters = []
    for _ in range(nf):
        filters.append(draw(E.weighted((6, st_hostile_filter(store)), (2, qgen.st_filter(store)), (2, st_suffixed_filter(store)),
                                       (1, st.sampled_from(["x", None, 5, [], [1], {}])))))
    if draw(st.integers(0, 3)) == 0:
        # aim at one stored event that must NOT come back
        decoys = draw(qgen.st_decoy_filters(store))
        filters = (decoys + filters)[: max(len(decoys), draw(st.integers(1, 4)))]
    path = draw(st.sampled_from(["req", "single", "ws"]))
    return {"backend": backend, "store": store, "filters": filters, "path": path}


def hostile_in(filters):
    def walk(x):
        if isinstance(x, str):
            return any(c in x for c in "'\"\\%:\x00") or x in HOSTILE
        if isinstance(x, dict):
            return any(walk(k) or walk(v) for k, v in x.items())
        if isinstance(x, list):
            return any(walk(i) for i in x)
        return False
    return walk(filters) or any(not R.wellformed_filter(f) for f in filters)


class Soundness(Sub):
    name = "soundness"
    examples = {"quick": 2400, "thorough": 19200}
    shards = {"quick": 10, "thorough": 16}
    rule = RULE

    def strategy(self, tier):
        return st_case()

    def run_case(self, case):
        return H.run(self._run, case)

    async def _run(self, case):
        backend = case["backend"]
        filters = case["filters"]
        viol = []
        labels = ["backend:" + backend, "path:" + case["path"]]
        async with H.Rig(backend, validators=[]) as rig:
            for ev in case["store"]:
                await rig.add(ev)
            stored = await rig.dump()
            got = []
            served = False
            if case["path"] == "req":
                got, eose, err = await rig.req(filters)
                served = err is None
                labels.append("refused" if err else "served")
            elif case["path"] == "single":
                try:
                    got = await rig.query(filters)
                    served = True
                except Exception as e:
                    labels.append("single-raised:" + type(e).__name__)
            else:
                c = rig.conn()
                frames = await c.send(["REQ", "s"] + filters)
                for raw in frames:
                    try:
                        fr = json.loads(raw)
                    except ValueError:
                        viol.append(V("frame-not-json", "every frame parses as JSON", raw=raw[:200]))
                        continue
                    if fr[0] == "EVENT":
                        if not isinstance(fr[2], dict):
                            viol.append(V("frame-not-event", "EVENT frames carry an event object", frame=fr))
                        else:
                            got.append(fr[2])
                    elif fr[0] == "EOSE":
                        served = True
                await c.disconnect()
            dicts = [f for f in filters if isinstance(f, dict)]
            for g in got:
                if not isinstance(g, dict) or g.get("id") not in stored:
                    viol.append(V("%s-ghost" % backend, "returned object is an accepted, still stored event",
                                  backend=backend, got=g, filters=filters))
                    continue
                ref = stored[g["id"]]
                if any(g.get(k) != ref[k] for k in ref):
                    viol.append(V("%s-altered" % backend, "returned event equals the stored one", got=g, stored=ref))
                if not any(R.may_match(ref, f) for f in dicts):
                    viol.append(V("%s-unsound" % backend, "returned event matches a filter of the REQ",
                                  backend=backend, path=case["path"], event=ref, filters=filters))
            non = [e for e in stored.values() if not any(R.may_match(e, f) for f in dicts)]
        return Result(viol, served and bool(non) and hostile_in(filters), labels)


# ------------------------------------------------------------------ skeleton

_TOKEN = re.compile(r"""
    (?P<blob>[xX]'[0-9a-fA-F]*') |
    (?P<str>'(?:[^']|'')*') |
    (?P<bind>:[A-Za-z_][A-Za-z0-9_]*) |
    (?P<num>\d+(?:\.\d+)?) |
    (?P<id>[A-Za-z_][A-Za-z0-9_.]*) |
    (?P<ws>\s+) |
    (?P<punct>.)
""", re.X | re.S)


def sql_skeleton(text):
    """token skeleton per OR-ed filter clause; clauses sorted because the relay keeps them in a set"""
    return sorted(json.dumps(_sql_tokens(part)) for part in re.split(r"\n\) OR \(\n|\nUNION\n", text))


def _sql_tokens(text):
    out = []
    for m in _TOKEN.finditer(text):
        k = m.lastgroup
        if k == "ws":
            continue
        if k in ("blob", "str", "num", "bind"):
            out.append("<%s>" % k)
        else:
            out.append(m.group().lower())
    return out


def py_skeleton(src):
    tree = ast.parse(src)
    for node in ast.walk(tree):
        if isinstance(node, ast.Constant):
            node.value = 0
    for node in ast.walk(tree):
        if isinstance(node, ast.BoolOp):  # the relay joins a *set* of clauses: order is arbitrary
            node.values.sort(key=ast.dump)
    return ast.dump(tree)


def benign_twin(f):
    """same shape, harmless tag names and values (ids, numbers untouched)"""
    if not isinstance(f, dict):
        return f
    out = {}
    i = 0
    for k, v in f.items():
        if isinstance(k, str) and k.startswith("#") and len(k) == 2:
            nk = "#" + "abcdefghijklmnopqrstuvwxyz"[i % 26]
            i += 1
            if isinstance(v, list):
                nv = []
                seen = {}
                for x in v:
                    if isinstance(x, str):
                        seen.setdefault(x, "v%d" % len(seen))
                        nv.append(seen[x])
                    else:
                        nv.append(x)
                out[nk] = nv
            else:
                out[nk] = v
        else:
            out[k] = v
    return out


class Skeleton(Sub):
    name = "skeleton"
    examples = {"quick": 1800, "thorough": 14400}
    shards = {"quick": 6, "thorough": 16}
    rule = ("one hostile filter list vs its benign twin; SQL statement token skeleton and LMDB residual "
            "predicate AST (constants blanked) must be equal; non-trivial = a tag name or value contains "
            "a metacharacter and a statement/predicate was built")

    def strategy(self, tier):
        store = st.just([E.free("11" * 32, "22" * 32, 1, E.T0, [["t", "a"]])])
        return st.tuples(st.sampled_from(["sql", "kv"]),
                         store.flatmap(lambda s: st.lists(st_hostile_filter(s), min_size=1, max_size=3))).map(list)

    def run_case(self, case):
        return H.run(self._run, case)

    async def _build(self, rig, backend, filters):
        """returns list of skeleton strings the backend built for the filters (or None if refused)"""
        from nostr_relay.storage.base import NostrQuery, ValidationError
        from nostr_relay.errors import StorageError

        cleaned = []
        for raw in json.loads(json.dumps(filters)):
            try:
                cleaned.append(NostrQuery.model_validate(raw))
            except (ValidationError, StorageError, TypeError):
                cleaned.append(None)
        shape = [c is not None for c in cleaned]
        cleaned = [c for c in cleaned if c is not None]
        if not cleaned:
            return shape, None
        if backend == "sql":
            sub = rig.storage.subscription_class(rig.storage, "s", cleaned, queue=None)
            if not sub.prepare():
                return shape, "prepare-failed"
            return shape, sql_skeleton(sub.query.text)
        else:
            from nostr_relay.storage import kv

            srcs = []
            real_compile = compile

            def spy(source, *a, **kw):
                srcs.append(source)
                return real_compile(source, *a, **kw)

            kv.compile_match_from_query.cache_clear()
            kv.compile = spy
            try:
                plans = kv.planner(cleaned)
                for p in plans:
                    kv.compile_match_from_query(p.query)
            finally:
                del kv.compile
                kv.compile_match_from_query.cache_clear()
            return shape, sorted(set(py_skeleton(s) for s in srcs))

    async def _run(self, case):
        backend, filters = case
        viol = []
        twin = [benign_twin(f) for f in filters]
        async with H.Rig(backend, validators=[]) as rig:
            s1, k1 = await self._build(rig, backend, filters)
            s2, k2 = await self._build(rig, backend, twin)
        if s1 == s2 and k1 != k2:
            viol.append(V("%s-skeleton-differs" % backend,
                          "tag names/values do not change the statement or code the engine executes",
                          backend=backend, filters=filters, twin=twin, got=k1, twin_got=k2))
        hostile = any(isinstance(f, dict) and any(
            isinstance(k, str) and k.startswith("#") and len(k) == 2 and (
                k[1] in "'\"\\%:\x00)" or (isinstance(v, list) and any(
                    isinstance(x, str) and any(c in x for c in "'\"\\%:\x00)") for x in v)))
            for k, v in f.items()) for f in filters)
        return Result(viol, hostile and k1 is not None and s1 == s2, ["backend:" + backend,
                                                                      "built" if k1 else "refused"])


class ConcurrentReqs(Sub):
    """several REQs whose stored queries overlap in time: every answer is judged against ITS OWN filters"""

    name = "concurrent-reqs"
    examples = {"quick": 300, "thorough": 2400}
    shards = {"quick": 8, "thorough": 16}
    rule = ("3..8 REQs of the same shape but different values (tag values, ids, authors, kinds taken from the store) are fed "
            "back to back on one or two connections without waiting for EOSE (SQL: file database, real threads; LMDB: query "
            "jobs held back, then released in a drawn order); oracle per subscription id: every EVENT frame carries a stored "
            "event that may-match that REQ's filter; non-trivial = two overlapping REQs have different, non-empty answers")

    def strategy(self, tier):
        @st.composite
        def build(draw):
            store = draw(qgen.st_store(min_events=4, max_events=12))
            shape = draw(st.sampled_from(["tag", "tag", "tag+kind", "ids", "authors", "kinds", "tag2"]))
            pairs = qgen._tagpairs(store) or [("t", "a")]
            reqs = []
            for j in range(draw(st.integers(3, 8))):
                if shape in ("tag", "tag+kind", "tag2"):
                    n, v = draw(st.sampled_from(pairs))
                    f = {"#" + n: [v]}
                    if shape == "tag+kind":
                        f["kinds"] = [draw(st.sampled_from(store))["kind"]]
                    if shape == "tag2":
                        n2, v2 = draw(st.sampled_from(pairs))
                        f = {"#" + n: [v, v2 if n2 == n else v]}
                elif shape == "ids":
                    f = {"ids": [draw(st.sampled_from(store))["id"]]}
                elif shape == "authors":
                    f = {"authors": [draw(st.sampled_from(store))["pubkey"]]}
                else:
                    f = {"kinds": [draw(st.sampled_from(store))["kind"]]}
                reqs.append([draw(st.integers(0, 1)), "s%d" % j, f])
            return {"backend": draw(st.sampled_from(["sql", "sql", "kv"])), "store": store, "reqs": reqs,
                    "order": draw(st.permutations(list(range(len(reqs)))))}
        return build()

    def run_case(self, case):
        return H.run(self._run, case)

    async def _run(self, case):
        backend = case["backend"]
        viol = []
        async with H.Rig(backend, validators=[], file_db=True if backend == "sql" else None) as rig:
            for ev in case["store"]:
                await rig.add(ev)
            stored = await rig.dump()
            conns = [rig.conn("10.0.0.1"), rig.conn("10.0.0.2")]
            pool = rig.storage.query_pool if backend == "kv" else None
            if pool is not None:
                pool.park = True
            for ci, sub, f in case["reqs"]:
                conns[ci].feed(["REQ", sub, f], 0)
            if pool is not None:
                for _ in range(30):
                    await asyncio.sleep(0)
                pool.park = False
                for j in case["order"]:
                    pool.release(min(j, max(0, len(pool.parked) - 1)))
                    await asyncio.sleep(0)
                pool.release_all()
            await rig.settle()
            answers = {}
            for ci, sub, f in case["reqs"]:
                got = [fr[2] for fr in conns[ci].frames() if fr[0] == "EVENT" and fr[1] == sub]
                answers[sub] = {g.get("id") for g in got if isinstance(g, dict)}
                for g in got:
                    ref = stored.get(g.get("id")) if isinstance(g, dict) else None
                    if ref is None:
                        viol.append(V("%s-ghost" % backend, "returned object is an accepted, still stored event", sub=sub, got=g))
                    elif not R.may_match(ref, f):
                        viol.append(V("%s-unsound:concurrent" % backend, "returned event matches a filter of the REQ it answers",
                                      backend=backend, sub=sub, filter=f, event=ref, reqs=case["reqs"]))
                    if viol:
                        break
                if viol:
                    break
            for c in conns:
                await c.disconnect()
        distinct = {frozenset(a) for a in answers.values() if a}
        return Result(viol[:2], len(distinct) >= 2, ["backend:" + backend])


SUBCHECKS = [Soundness(), Skeleton(), ConcurrentReqs()]
