"""
C04 - every frame the relay sends is well-formed and every served event is verbatim.

Sub-checks
  frames      subscription ids from st.text() (quotes, backslashes, controls, U+2028, non-BMP) and
              non-string JSON values; every string passed to ws_send parses as a JSON array of shape
              EVENT/EOSE/OK/NOTICE/AUTH; for string ids the frame carries exactly that string.
  verbatim    accepted events with arbitrary Unicode content and tag structures (incl. numbers,
              booleans, null, nested arrays where the relay accepts them) served (a) stored via REQ,
              (b) live to a watcher, (c) over HTTP /e/<id> (ASGI conductor), through both storage
              encodings: parsed event == accepted event field-for-field and its id/signature verify.
  serializer  util.event_as_json(sub, event) parsed == ["EVENT", sub, event.to_json_object()] for
              generated Event objects (no storage).
"""
import json

from hypothesis import strategies as st

from vlib import events as E
from vlib import harness as H
from vlib.core import Result, Sub, V

LEVEL = "exploration"
RULE = ("generated subscription ids / events; non-trivial = the sub id, content or a tag item needs JSON escaping "
        "or is not a string; distinct by hash of the case")
ASSUMPTIONS = ["events are signed over aionostr's own serialization (admission is C03's subject); lone surrogates "
               "are excluded (JSON text cannot carry them)", "SQLite only; LMDB engine modelled"]

text = st.text(alphabet=st.characters(blacklist_categories=("Cs",)), max_size=20)
nasty = st.sampled_from(['"', "\\", '\\"', "\n", "\x00", "\x1f", "\x7f", " ", " ", "\U0001F600", "'", "</script>",
                         "a\"b\\c", "퟿", "", "￾", " ", ""])
anytext = st.one_of(text, nasty, st.tuples(text, nasty, text).map("".join))
SHAPES = {"EVENT": 3, "EOSE": 2, "OK": 4, "NOTICE": 2, "AUTH": 2}


def check_frame(raw, viol, sub_ids=None):
    try:
        fr = json.loads(raw)
    except ValueError:
        viol.append(V("frame-not-json", "every frame parses as JSON", raw=raw[:300]))
        return None
    if not (isinstance(fr, list) and fr and fr[0] in SHAPES and len(fr) == SHAPES[fr[0]]):
        viol.append(V("frame-bad-shape", "frames are EVENT/EOSE/OK/NOTICE/AUTH arrays", frame=fr))
        return None
    if fr[0] in ("EVENT", "EOSE"):
        if not isinstance(fr[1], str):
            viol.append(V("frame-subid-not-string", "subscription id in a frame is a string", frame=fr))
        elif sub_ids is not None and fr[1] not in sub_ids:
            viol.append(V("frame-subid-differs", "subscription id equals the string the client supplied",
                          got=fr[1], sent=sorted(sub_ids)))
    if fr[0] == "EVENT" and not isinstance(fr[2], dict):
        viol.append(V("frame-event-not-object", "EVENT carries an event object", frame=fr))
    if fr[0] == "OK" and not (isinstance(fr[1], str) and isinstance(fr[2], bool) and isinstance(fr[3], str)):
        viol.append(V("frame-ok-types", "OK frame is [OK, id, bool, message]", frame=fr))
    return fr


def needs_escape(s):
    return isinstance(s, str) and any(c in '"\\' or ord(c) < 0x20 or ord(c) in (0x2028, 0x2029, 0x7f) or ord(c) > 0xffff for c in s)


class Frames(Sub):
    name = "frames"
    examples = {"quick": 1600, "thorough": 12800}
    shards = {"quick": 8, "thorough": 16}
    rule = RULE

    def strategy(self, tier):
        longid = st.sampled_from([64, 65, 136, 1000]).flatmap(lambda n: st.sampled_from(["x" * n, "é" * n, ("ab" * n)[:n - 1] + '"']))
        subid = st.one_of(anytext, anytext, longid, st.none(), st.booleans(), st.integers(-2**63, 2**64),
                          st.floats(allow_nan=False, allow_infinity=False), st.lists(st.integers(0, 3), max_size=2),
                          st.dictionaries(st.text(max_size=2), st.integers(0, 3), max_size=1))
        # fourth element: "id" values of EVENT submissions that get refused (the OK frame still has to be [OK, str, bool, str])
        badid = st.one_of(st.integers(-5, 2**70), st.booleans(), st.none(), st.floats(allow_nan=False, allow_infinity=False),
                          st.lists(st.integers(0, 3), max_size=2), st.dictionaries(st.text(max_size=2), st.integers(0, 3), max_size=1),
                          anytext, st.just("ab" * 32))
        return st.tuples(st.sampled_from(["kv", "sql"]), st.lists(subid, min_size=1, max_size=3),
                         st.booleans(), st.lists(badid, max_size=3),
                         # fifth element: the refused submissions run into a configured rate limit as well
                         st.booleans()).map(list)

    def run_case(self, case):
        return H.run(self._run, case)

    async def _run(self, case):
        backend, subids, close = case[:3]
        badids = case[3] if len(case) > 3 else []
        limited = case[4] if len(case) > 4 else False
        viol = []
        labels = ["backend:" + backend] + (["rate-limited-refusals"] if limited and badids else [])
        async with H.Rig(backend) as rig:
            ev = E.make(0, 1, E.T0, [["t", "a"]], 'c"\\')
            await rig.add(ev)
            c = rig.conn()
            sent_str = set()
            for sid in subids:
                if isinstance(sid, str):
                    sent_str.add(sid)
                else:
                    sent_str.add(str(sid))  # web.py coerces with str(); any string is acceptable for non-strings
                await c.send(["REQ", sid, {"kinds": [1]}])
            live = E.make(1, 1, E.T0 + 1, [], "live")
            await c.send(["EVENT", live])
            for j, bid in enumerate(badids):
                # one connection per refused submission (a refusal slows its connection down)
                rl = None
                if limited:
                    from nostr_relay.rate_limiter import RateLimiter

                    rl = RateLimiter({"ip": {"EVENT": "1/h"}})
                c2 = rig.conn("10.9.0.%d" % j, rate_limiter=rl)
                refused = dict(E.make(2, 1, E.T0 + 5 + j, [], "refused %d" % j), id=bid)
                for _ in range(2 if limited else 1):   # the second copy is turned away by the limiter
                    for raw in await c2.send(["EVENT", refused]):
                        check_frame(raw, viol)   # shape only: which id an OK for a refused submission names is not specified
                if not c2.task.done():
                    await c2.disconnect()
            if close:
                for sid in subids:
                    await c.send(["CLOSE", sid])
            all_str = all(isinstance(s, str) for s in subids)
            got_eose = set()
            for raw in c.out:
                fr = check_frame(raw, viol, sent_str if all_str else None)
                if fr and fr[0] == "EOSE":
                    got_eose.add(fr[1])
            if all_str and c.closed is None:
                for s in set(subids):
                    if s not in got_eose:
                        viol.append(V("eose-missing-for-subid", "EOSE carries the client's subscription id",
                                      sub_id=s, eose=sorted(got_eose)))
            await c.disconnect()
        nt = any(needs_escape(s) or not isinstance(s, str) for s in subids)
        return Result(viol, nt, labels)


# ------------------------------------------------------------------ verbatim

hex64 = st.sampled_from(["5c83da77af1dec6d7289834998ad7aafbd9e2191396d75ec3cc27f5a77226f36",
                         "5C83DA77AF1DEC6D7289834998AD7AAFBD9E2191396D75EC3CC27F5A77226F36",
                         "5c83DA77af1dec6d7289834998ad7aafbd9e2191396d75ec3cc27f5a77226F36", "00" * 32, "FF" * 32, "ab" * 31])
tag_item = st.one_of(anytext, anytext, anytext, hex64, st.integers(-2**63, 2**63 - 1), st.booleans(), st.none(),
                     st.floats(allow_nan=False, allow_infinity=False, width=32),
                     st.sampled_from([0.1, 48.8566, 1e-7, 3.141592653589793, 1.7976931348623157e308, 5e-324]),  # need all 64 bits
                     st.lists(st.one_of(anytext, st.integers(0, 9)), max_size=2), st.just("x" * 300))


@st.composite
def st_event(draw):
    from aionostr.event import Event

    k = draw(st.integers(0, 2))
    kind = draw(st.sampled_from([1, 1, 4, 7, 1000, 40000]))  # regular kinds only: nothing is superseded
    tags = []
    for _ in range(draw(st.integers(0, 4))):
        name = draw(st.one_of(st.sampled_from(["t", "e", "p", "d", "nonce", "é", ""]), anytext))
        tags.append([name] + draw(st.lists(tag_item, max_size=3)))
    content = draw(st.one_of(anytext, st.text(alphabet=st.characters(blacklist_categories=("Cs",)), max_size=200)))
    ts = E.T0 + draw(st.integers(0, 3))
    try:
        eid = Event.compute_id(E.PKS[k], ts, kind, tags, content)
    except Exception:
        eid = E.compute_id(E.PKS[k], ts, kind, tags, content)
    return {"id": eid, "pubkey": E.PKS[k], "created_at": ts, "kind": kind, "tags": tags, "content": content,
            "sig": E.sign_id(k, eid)}


def verifies(ev):
    """id and signature of a served event verify (same functions admission uses, on the served JSON)"""
    from aionostr.event import Event
    from nostr_relay.validators import is_well_formed

    try:
        e = Event(**ev)
        return bool(is_well_formed(e) and e.verify())
    except Exception:
        return False


class Verbatim(Sub):
    name = "verbatim"
    examples = {"quick": 1600, "thorough": 12800}
    shards = {"quick": 10, "thorough": 16}
    rule = RULE

    def strategy(self, tier):
        return st.tuples(st.sampled_from(["kv", "sql"]), st.lists(st_event(), min_size=1, max_size=3)).map(list)

    def run_case(self, case):
        return H.run(self._run, case)

    async def _run(self, case):
        import falcon.testing
        from nostr_relay import web

        backend, events = case
        viol = []
        labels = ["backend:" + backend]
        nt = False
        async with H.Rig(backend) as rig:
            w = rig.conn("10.0.0.9")
            await w.send(["REQ", "w", {"since": 1}])
            c = rig.conn()
            accepted = {}
            for ev in events:
                n0 = len(w.out)
                frames = await c.send(["EVENT", ev])
                ok = [json.loads(f) for f in frames if json.loads(f)[0] == "OK"]
                if ok and ok[0][2] is True and ev["id"] not in accepted:
                    accepted[ev["id"]] = ev
                    labels.append("accepted")
                    for raw in w.out[n0:]:
                        fr = check_frame(raw, viol, {"w"})
                        if fr and fr[0] == "EVENT" and fr[2].get("id") == ev["id"]:
                            self.compare("live", backend, ev, fr[2], viol)
                else:
                    labels.append("refused")
            if accepted:
                frames = await c.send(["REQ", "s", {"ids": list(accepted)}])
                seen = set()
                for raw in frames:
                    fr = check_frame(raw, viol, {"s"})
                    if fr and fr[0] == "EVENT":
                        seen.add(fr[2].get("id"))
                        if fr[2].get("id") in accepted:
                            self.compare("stored", backend, accepted[fr[2]["id"]], fr[2], viol)
                for i in accepted:
                    if i not in seen:
                        viol.append(V("%s-accepted-not-served" % backend, "an accepted event is served by id", id=i))
                app = web.create_app(storage=rig.storage)
                cond = falcon.testing.ASGIConductor(app)
                for i, ev in accepted.items():
                    r = await cond.simulate_get("/e/" + i)
                    if r.status_code != 200:
                        viol.append(V("%s-http-not-served" % backend, "/e/<id> serves an accepted event", id=i,
                                      status=r.status_code))
                        continue
                    try:
                        got = json.loads(r.text)
                    except ValueError:
                        viol.append(V("http-body-not-json", "/e/<id> body is JSON", body=r.text[:200]))
                        continue
                    self.compare("http", backend, ev, got, viol)
                for ev in accepted.values():
                    if needs_escape(ev["content"]) or any(needs_escape(x) or not isinstance(x, str)
                                                          for t in ev["tags"] for x in t):
                        nt = True
            await c.disconnect()
            await w.disconnect()
        return Result(viol, nt, labels)

    @staticmethod
    def compare(path, backend, sent, got, viol):
        keys = ("id", "pubkey", "created_at", "kind", "tags", "content", "sig")
        if not isinstance(got, dict) or any(k not in got for k in keys):
            viol.append(V("%s-%s-fields-missing" % (backend, path), "served event has every field", got=got))
            return
        for k in keys:
            if got[k] != sent[k] or type(got[k]) is not type(sent[k]) or (
                    k == "tags" and json.dumps(got[k]) != json.dumps(sent[k])):
                viol.append(V("%s-%s-not-verbatim:%s" % (backend, path, k),
                              "a served event is field-for-field equal to the accepted one",
                              path=path, field=k, sent=sent[k], got=got[k]))
                return
        if not verifies(got):
            viol.append(V("%s-%s-does-not-verify" % (backend, path), "id and signature of a served event verify", got=got))


class Serializer(Sub):
    name = "serializer"
    examples = {"quick": 6000, "thorough": 48000}
    shards = {"quick": 4, "thorough": 16}
    rule = "event_as_json vs json of to_json_object on generated Event objects; non-trivial as above"

    def strategy(self, tier):
        return st.tuples(anytext, st_event()).map(list)

    def run_case(self, case):
        from aionostr.event import Event
        from nostr_relay.util import event_as_json

        sub, ev = case
        viol = []
        e = Event(**json.loads(json.dumps(ev)))
        raw = event_as_json(sub, e)
        try:
            fr = json.loads(raw)
        except ValueError:
            return Result([V("frame-not-json", "every frame parses as JSON", raw=raw[:300])], True, [])
        want = ["EVENT", sub, e.to_json_object()]
        if json.dumps(fr, sort_keys=True) != json.dumps(want, sort_keys=True):
            viol.append(V("serializer-differs", "hand-written serializer equals the generic one", got=fr, want=want))
        nt = needs_escape(sub) or needs_escape(ev["content"]) or any(
            needs_escape(x) or not isinstance(x, str) for t in ev["tags"] for x in t)
        return Result(viol, nt, [])


SUBCHECKS = [Frames(), Verbatim(), Serializer()]
