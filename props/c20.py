"""
C20 - cross-worker notification delivers each event id intact, once, to other workers.

No sockets: the notifier module's asyncio.open_connection is replaced by a harness function
returning real asyncio.StreamReader objects and recording writers, so the harness owns the
transport and a Hypothesis-drawn schedule decides how every byte stream is chunked (splits
inside and across 32-byte ids, coalesced ids, interleaving of senders, a peer closing mid-id).
The real NotifyServer.handle_notify and NotifyClient.connect/notify run unmodified.
Oracle per receiving worker: the ids looked up (storage.get_event) are exactly the ids announced
by the OTHER workers and completely transmitted - intact, once each, per-sender order kept;
nothing echoes to the sender; notify_all_connected is called once per id whose event exists.
"""
import asyncio
import types

from hypothesis import strategies as st

from vlib import harness as H
from vlib.core import Result, Sub, V

LEVEL = "exploration"
RULE = ("2-4 simulated workers, sequences of announced ids, Hypothesis-drawn chunking of every stream; "
        "non-trivial = at least one delivered chunk boundary falls strictly inside a 32-byte id; distinct by "
        "hash of the schedule")
ASSUMPTIONS = ["TCP modelled as reliable ordered byte streams with arbitrary chunking; no real sockets",
               "ids cut off by their sender's disconnect are allowed to be lost"]


class FakeWriter:
    def __init__(self, name, sink):
        self.name = name
        self.sink = sink  # bytearray: bytes in flight towards the peer
        self.closed = False
        self.stalled = False  # back-pressure: the peer does not read, drain() blocks
        self.resume = asyncio.Event()

    def write(self, data):
        if not self.closed:
            self.sink.extend(bytes(data))

    async def drain(self):
        await asyncio.sleep(0)
        while self.stalled and not self.closed:
            self.resume.clear()
            await self.resume.wait()

    def close(self):
        self.closed = True

    def get_extra_info(self, what, default=None):
        return ("127.0.0.1", self.name)

    def is_closing(self):
        return self.closed


class FakeStorage:
    def __init__(self, known):
        self.known = known
        self.looked_up = []
        self.notified = []

    async def get_event(self, idhex):
        self.looked_up.append(idhex)
        if idhex in self.known:
            return types.SimpleNamespace(id=idhex, id_bytes=bytes.fromhex(idhex))
        return None

    async def notify_all_connected(self, event):
        self.notified.append(event.id)


IDS = [bytes([i]) * 32 for i in (0x00, 0x01, 0x02, 0x41, 0xfe, 0xff)] + [bytes(range(32)), bytes(range(32, 64))]


@st.composite
def st_case(draw):
    nw = draw(st.integers(2, 4))
    ops = []
    for _ in range(draw(st.integers(2, 24))):
        k = draw(st.integers(0, 9))
        if k == 9 and draw(st.integers(0, 3)) != 0:
            k = draw(st.integers(0, 8))  # a peer closing is the rare case
        w = draw(st.integers(0, nw - 1))
        if k <= 3:
            ops.append(["announce", w, draw(st.integers(0, len(IDS) - 1))])
        elif k <= 6:
            ops.append(["c2s", w, draw(st.sampled_from([1, 5, 16, 20, 31, 32, 33, 50, 64, 100]))])
        elif k <= 8:
            ops.append(["s2c", w, draw(st.sampled_from([1, 5, 16, 20, 31, 32, 33, 50, 64, 100]))])
        else:
            ops.append(["close", w])
        if draw(st.integers(0, 11)) == 0:
            ops.append(draw(st.sampled_from([["stall", w], ["unstall", w], ["advance"]])))
    final = draw(st.sampled_from([1, 7, 20, 31, 32, 33, 1000]))
    unknown = draw(st.lists(st.integers(0, len(IDS) - 1), max_size=2))
    return {"workers": nw, "ops": ops, "final_chunk": final, "unknown_ids": unknown}


class Notifier(Sub):
    name = "chunking"
    examples = {"quick": 6000, "thorough": 48000}
    shards = {"quick": 8, "thorough": 16}
    rule = RULE

    def strategy(self, tier):
        return st_case()

    def run_case(self, case):
        return H.run(self._run, case)

    async def _run(self, case):
        from nostr_relay import notifier

        nw = case["workers"]
        known = {IDS[i].hex() for i in range(len(IDS)) if i not in case["unknown_ids"]}
        c2s = [bytearray() for _ in range(nw)]
        s2c = [bytearray() for _ in range(nw)]
        srv_readers = [asyncio.StreamReader() for _ in range(nw)]
        cli_readers = [asyncio.StreamReader() for _ in range(nw)]
        storages = [FakeStorage(known) for _ in range(nw)]
        pending_conn = []

        async def open_connection(addr, port):
            i = pending_conn.pop(0)
            return cli_readers[i], FakeWriter("c%d" % i, c2s[i])

        async def fast_sleep(delay, result=None):
            await asyncio.sleep(0)

        fake = types.SimpleNamespace(**{k: getattr(asyncio, k) for k in dir(asyncio) if not k.startswith("__")})
        fake.open_connection = open_connection
        fake.sleep = fast_sleep
        real_asyncio = notifier.asyncio
        notifier.asyncio = fake
        viol = []
        labels = []
        split = False
        try:
            server = notifier.NotifyServer()
            clients = [notifier.NotifyClient(s) for s in storages]
            tasks = []
            srv_writers = [FakeWriter("s%d" % i, s2c[i]) for i in range(nw)]
            for i in range(nw):
                pending_conn.append(i)
                tasks.append(asyncio.create_task(clients[i].connect()))
                tasks.append(asyncio.create_task(server.handle_notify(srv_readers[i], srv_writers[i])))
            await idle()
            announced = [[] for _ in range(nw)]   # per sender: list of ids announced
            sent_bytes = [0] * nw                 # bytes of c2s delivered to the server
            closed = [False] * nw
            offsets_c2s = [0] * nw
            offsets_s2c = [0] * nw

            async def deliver_c2s(w, n):
                nonlocal split
                if closed[w]:
                    return
                chunk = bytes(c2s[w][:n])
                del c2s[w][:n]
                if chunk:
                    offsets_c2s[w] += len(chunk)
                    if offsets_c2s[w] % 32 and c2s[w] is not None:
                        split = True
                    srv_readers[w].feed_data(chunk)
                    sent_bytes[w] += len(chunk)
                    await idle()

            async def deliver_s2c(w, n):
                nonlocal split
                if closed[w]:
                    return
                chunk = bytes(s2c[w][:n])
                del s2c[w][:n]
                if chunk:
                    offsets_s2c[w] += len(chunk)
                    if offsets_s2c[w] % 32:
                        split = True
                    cli_readers[w].feed_data(chunk)
                    await idle()

            for op in case["ops"]:
                if op[0] == "announce" and not closed[op[1]]:
                    idb = IDS[op[2]]
                    ev = types.SimpleNamespace(id=idb.hex(), id_bytes=idb)
                    await clients[op[1]].notify(ev)
                    announced[op[1]].append(idb.hex())
                    await idle()
                elif op[0] == "c2s":
                    await deliver_c2s(op[1], op[2])
                elif op[0] == "s2c":
                    await deliver_s2c(op[1], op[2])
                elif op[0] == "stall":
                    srv_writers[op[1]].stalled = True   # worker op[1] stops reading: writes to it back up
                    labels.append("backpressure")
                elif op[0] == "unstall":
                    srv_writers[op[1]].stalled = False
                    srv_writers[op[1]].resume.set()
                    await idle()
                elif op[0] == "advance":
                    # time passes (any timer the code under test armed fires)
                    for _ in range(3):
                        asyncio.get_running_loop().jump_to_next_timer()
                        await idle()
                elif op[0] == "close" and not closed[op[1]]:
                    closed[op[1]] = True
                    labels.append("peer-closed")
                    srv_readers[op[1]].feed_eof()
                    cli_readers[op[1]].feed_eof()
                    await idle()
            # flush everything that is still in flight, in chunks of the drawn size
            for wtr in srv_writers:
                wtr.stalled = False
                wtr.resume.set()
            await idle()
            fc = case["final_chunk"]
            for _ in range(10000):
                moved = False
                for w in range(nw):
                    if c2s[w] and not closed[w]:
                        await deliver_c2s(w, fc)
                        moved = True
                for w in range(nw):
                    if s2c[w] and not closed[w]:
                        await deliver_s2c(w, fc)
                        moved = True
                if not moved:
                    break
            await idle()
            # ---- oracle
            complete = [announced[w][: sent_bytes[w] // 32] for w in range(nw)]
            for r in range(nw):
                if closed[r]:
                    continue
                got = storages[r].looked_up
                for g in got:
                    if len(g) != 64:
                        viol.append(V("id-fragment-looked-up", "every id arrives intact (32 bytes)", receiver=r, got=g))
                        break
                want_multi = sorted(i for w in range(nw) if w != r for i in complete[w])
                if not viol and sorted(got) != want_multi:
                    own = [g for g in got if g in announced[r] and g not in want_multi]
                    sig = "echoed-to-sender" if own else "ids-lost-or-duplicated"
                    viol.append(V(sig, "each id reaches every other worker exactly once, and not the sender",
                                  receiver=r, got=got, want=want_multi))
                if not viol:
                    # per-sender order: when all announced ids are distinct across senders
                    allids = [i for w in range(nw) for i in complete[w]]
                    if len(set(allids)) == len(allids):
                        for w in range(nw):
                            if w != r and [g for g in got if g in complete[w]] != complete[w]:
                                viol.append(V("per-sender-order-broken", "ids of one sender arrive in order",
                                              receiver=r, sender=w, got=got, want=complete[w]))
                    want_notified = sorted(i for i in want_multi if i in known)
                    if sorted(storages[r].notified) != want_notified:
                        viol.append(V("fanout-mismatch", "every announced id whose event exists is pushed exactly once",
                                      receiver=r, notified=storages[r].notified, want=want_notified))
                if viol:
                    break
            for t in tasks:
                t.cancel()
            await asyncio.gather(*tasks, return_exceptions=True)
        finally:
            notifier.asyncio = real_asyncio
        return Result(viol, split, labels + ["workers:%d" % nw])


async def idle(n=12):
    for _ in range(n):
        await asyncio.sleep(0)


class EndToEnd(Sub):
    """two real SQL storages on one database file, joined by the real notifier client/server over harness-owned streams"""

    name = "end-to-end"
    examples = {"quick": 60, "thorough": 480}
    shards = {"quick": 10, "thorough": 16}
    rule = ("two worker storages (DBStorage, one SQLite file, run_notifier on) each with a live subscriber; operations: an "
            "event accepted by worker A or B - optionally before that worker's notifier link is up, optionally with its COMMIT "
            "held back while the notifier streams are pumped - pumping, releasing; oracle: every event accepted after both "
            "links are up reaches the subscriber of EACH worker exactly once; non-trivial = an event was accepted with its "
            "commit held while the streams were pumped, or after an early (pre-link) event")

    def strategy(self, tier):
        op = st.one_of(st.tuples(st.just("event"), st.integers(0, 1), st.booleans()).map(list), st.just(["pump"]),
                       st.just(["both"]))   # the same new event is submitted to both workers in the same instant
        plain = st.lists(op, min_size=1, max_size=6)
        # second family: a worker's notifier link backs up (its announcements stay pending) while its subscriber replaces
        # the subscription; events are of kind 1 or 2 and run as tasks (an acceptance may have to wait for the link)
        op2 = st.one_of(st.tuples(st.just("event2"), st.integers(0, 1), st.sampled_from([1, 2])).map(list),
                        st.tuples(st.just("stall"), st.integers(0, 1)).map(list), st.tuples(st.just("unstall"), st.integers(0, 1)).map(list),
                        st.tuples(st.just("resub"), st.integers(0, 1), st.sampled_from([[1], [2], [1, 2]])).map(list), st.just(["pump"]))
        motif = st.tuples(st.integers(0, 1), st.sampled_from([1, 2])).map(
            lambda t: [["stall", t[0]], ["event2", t[0], t[1]], ["event2", t[0], t[1]], ["resub", t[0], [3 - t[1]]], ["unstall", t[0]]])
        backed_up = st.tuples(st.lists(op2, max_size=4), motif, st.lists(op2, max_size=3)).map(lambda t: t[0] + t[1] + t[2])
        return st.tuples(st.lists(st.integers(0, 1), max_size=2), st.one_of(plain, plain, backed_up)).map(list)

    def run_case(self, case):
        return H.run(self._run, case, timeout=300)

    async def _run(self, case):
        import sqlalchemy as sa
        from sqlalchemy.util import await_only

        from nostr_relay import notifier
        from vlib import events as E

        early, ops = case
        viol = []
        labels = []
        nw = 2
        c2s = [bytearray() for _ in range(nw)]
        s2c = [bytearray() for _ in range(nw)]
        srv_readers = [asyncio.StreamReader() for _ in range(nw)]
        cli_readers = [asyncio.StreamReader() for _ in range(nw)]
        order = []

        cli_writers = {}

        async def open_connection(addr, port):
            i = order.pop(0)
            cli_writers[i] = FakeWriter("c%d" % i, c2s[i])
            return cli_readers[i], cli_writers[i]

        fake = types.SimpleNamespace(**{k: getattr(asyncio, k) for k in dir(asyncio) if not k.startswith("__")})
        fake.open_connection = open_connection
        real_asyncio = notifier.asyncio
        notifier.asyncio = fake
        rigs = []
        tasks = []
        second_family = any(op[0] in ("event2", "stall", "unstall", "resub") for op in ops)
        pending_adds = []
        reqs_sent = [[[1, 2, 20001]], [[1, 2, 20001]]]   # per subscriber: kinds of every REQ "live" it sent, in order
        try:
            cfg = {"run_notifier": True}
            ra = H.Rig("sql", config=cfg, file_db=True)
            await ra.open()
            rigs.append(ra)
            order.append(0)
            rb = H.Rig("sql", config=cfg, file_db=ra.file_db)
            await rb.open()
            rigs.append(rb)
            order.append(1)
            server = notifier.NotifyServer()
            for i in range(nw):
                tasks.append(asyncio.create_task(server.handle_notify(srv_readers[i], FakeWriter("s%d" % i, s2c[i]))))
            gates = [None, None]

            def hold(i):
                def on_commit(conn):
                    g = gates[i]
                    if g is not None:
                        await_only(g.wait())
                return on_commit
            for i, r in enumerate(rigs):
                sa.event.listen(r.storage.db.sync_engine, "commit", hold(i))
            subs = []
            for i, r in enumerate(rigs):
                c = r.conn("10.0.%d.1" % i)
                c.feed(["REQ", "live", {"kinds": [1, 2, 20001]}])
                subs.append(c)
            # the subscriptions are live (EOSE seen) before anything is published; no timer may fire meanwhile
            for _ in range(400):
                await spin(rigs, n=5)
                if all(any(f[0] == "EOSE" for f in c.frames()) for c in subs):
                    break
            else:
                raise H.HarnessError("subscriptions did not reach EOSE")

            async def pump():
                for _ in range(50):
                    moved = False
                    for w in range(nw):
                        if c2s[w]:
                            srv_readers[w].feed_data(bytes(c2s[w]))
                            del c2s[w][:]
                            moved = True
                        if s2c[w]:
                            cli_readers[w].feed_data(bytes(s2c[w]))
                            del s2c[w][:]
                            moved = True
                    await spin(rigs)
                    if not moved:
                        break

            n = 0
            sent = []   # (event, must_reach_everybody)
            # before the notifier links are up (the clients are still in their start-up sleep)
            for w in early:
                n += 1
                ev = E.make(w, 1, E.T0 + n, [], "early %d" % n)
                await rigs[w].storage.add_event(dict(ev))
                await spin(rigs)
                sent.append((ev, False))
                labels.append("early-event")
            for r in rigs:
                await r.settle()      # lets the start-up sleep of both clients elapse: links are up
            await pump()
            nt = False
            for op in ops:
                if op[0] == "pump":
                    await pump()
                    continue
                if op[0] in ("stall", "unstall"):
                    if op[1] in cli_writers:
                        cli_writers[op[1]].stalled = op[0] == "stall"
                        if op[0] == "unstall":
                            cli_writers[op[1]].resume.set()
                        labels.append("link-" + op[0])
                    await spin(rigs)
                    continue
                if op[0] == "resub":
                    subs[op[1]].feed(["REQ", "live", {"kinds": op[2]}])
                    reqs_sent[op[1]].append(op[2])
                    await spin(rigs, wall=0.02)
                    continue
                if op[0] == "event2":
                    n += 1
                    ev = E.make(op[1], op[2], E.T0 + n, [], "event %d" % n)
                    pending_adds.append(asyncio.create_task(rigs[op[1]].storage.add_event(dict(ev))))
                    await spin(rigs, wall=0.02)
                    nt = nt or any(wr.stalled for wr in cli_writers.values())
                    continue
                if op[0] == "both":
                    n += 1
                    ev = E.make(n % 3, 1, E.T0 + n, [], "event %d on both workers" % n)
                    await asyncio.gather(*[r.storage.add_event(dict(ev)) for r in rigs], return_exceptions=True)
                    labels.append("same-event-on-both-workers")
                    nt = True
                    sent.append((ev, True))
                    await spin(rigs)
                    continue
                w, held = op[1], op[2]
                n += 1
                # every third event is ephemeral: stored and announced like any other on this (SQL) backend
                ev = E.make(w, 20001 if n % 3 == 0 else 1, E.T0 + n, [], "event %d" % n)
                if ev["kind"] == 20001:
                    labels.append("ephemeral-event")
                if held:
                    gates[w] = asyncio.Event()
                    t = asyncio.create_task(rigs[w].storage.add_event(dict(ev)))
                    await spin(rigs, wall=0.05)
                    await pump()          # whatever was announced already travels now
                    gates[w].set()
                    gates[w] = None
                    await t
                    labels.append("commit-held")
                    nt = True
                else:
                    await rigs[w].storage.add_event(dict(ev))
                if early:
                    nt = True
                sent.append((ev, True))
                await spin(rigs)
            for wr in cli_writers.values():
                wr.stalled = False
                wr.resume.set()
            await pump()
            for r in rigs:
                await r.settle()
            await pump()
            for r in rigs:
                await r.settle()
            if pending_adds:
                done, not_done = await asyncio.wait(pending_adds, timeout=0)
                if not_done:
                    viol.append(V("acceptance-never-finishes", "an accepted event is acknowledged once the link drains",
                                  pending=len(not_done), ops=ops))
                    for t in not_done:
                        t.cancel()
            # after the EOSE of its k-th REQ a subscriber gets nothing that only an EARLIER version of the subscription wanted
            for i, c in enumerate(subs):
                k = 0
                for f in c.frames():
                    if f[0] == "EOSE" and f[1] == "live":
                        k += 1
                    elif f[0] == "EVENT" and f[1] == "live" and k >= 1:
                        current = reqs_sent[i][k - 1:]
                        if not any(f[2]["kind"] in kinds for kinds in current):
                            viol.append(V("event-for-replaced-subscription", "a replaced subscription receives nothing any more",
                                          worker=i, kind=f[2]["kind"], after_eose_number=k, reqs=reqs_sent[i], ops=ops))
                            break
            for i, c in enumerate(subs):
                if second_family:
                    break
                got = [f[2]["id"] for f in c.frames() if f[0] == "EVENT" and f[1] == "live"]
                for ev, must in sent:
                    k = got.count(ev["id"])
                    if k > 1 or (must and k != 1):
                        viol.append(V("cross-worker-delivery:%s" % ("duplicate" if k > 1 else "lost"),
                                      "each accepted event reaches the subscribers of every worker exactly once",
                                      worker=i, copies=k, event=ev["content"], ops=ops, early=early))
                        break
                if viol:
                    break
        finally:
            for t in tasks:
                t.cancel()
            for r in rigs:
                try:
                    if r.storage is not None and r.storage.notifier is not None and r.storage.notifier._task is not None:
                        r.storage.notifier._task.cancel()
                except Exception:
                    pass
            for r in reversed(rigs):
                keep = getattr(r, "_tmpdir", None)
                try:
                    await r.close()
                except Exception:
                    pass
            notifier.asyncio = real_asyncio
        return Result(viol, nt, labels)


async def spin(rigs, n=40, wall=0.0):
    """let tasks (and the database threads) make progress without jumping timers"""
    import time as _t

    t0 = _t.monotonic()
    for _ in range(n):
        await asyncio.sleep(0)
        _t.sleep(0.0003)
    while _t.monotonic() - t0 < wall:
        await asyncio.sleep(0)
        _t.sleep(0.0005)


SUBCHECKS = [Notifier(), EndToEnd()]
