"""
C05 - a new event reaches exactly the matching open subscriptions, once each.

Generated schedules over up to 4 connections: REQ / CLOSE / replacing REQ / EVENT (valid, invalid,
duplicate, ephemeral) / disconnect, interleaved with schedule operations owned by the harness:
recv latency, parking and releasing validator jobs (an EVENT stays 'in flight' while other
connections proceed), applying k queued LMDB writes, yielding, settling.  LMDB runs fully
deterministic; SQL keeps its DB threads (message-level interleavings only).
Every frame is stamped with the operation index at which it appeared.  Oracle, per (connection,
subscription id) and accepted event e with accept interval [fed, settled]:
  MUST     an instance certainly open over the whole interval whose filters must-match e gets >= 1 frame
  AT MOST  sum over instances of that id: 0 if closed (settled) before e was fed or filters cannot match,
           1 if opened after e settled (stored copy; 0 for ephemeral), 1 if its stored phase ended before
           e was fed (live copy), 2 if opening and acceptance overlap
  refused / invalid events: no frame anywhere
Second oracle (live == stored): at the end, for every still-open instance and every stored event that
arrived while it was open, pushed-live <=> returned by the same filters queried now (events on a
since/until bound and ephemeral kinds excepted).
"""
import asyncio
import json

from hypothesis import strategies as st

from vlib import events as E
from vlib import harness as H
from vlib import refmodel as R
from vlib.core import Result, Sub, V

LEVEL = "exploration"
RULE = ("schedules of client messages and harness-owned scheduling operations; non-trivial = >=2 connections, an "
        "event accepted while >=2 subscriptions are open of which one matches and one does not, and a scheduling "
        "operation between a feed and its settle; distinct by hash of the schedule")
ASSUMPTIONS = ["LMDB: single-threaded deterministic mode, the harness owns validator jobs, writer and query jobs",
               "SQL: aiosqlite threads stay; interleavings inside one DB call are not owned",
               "frames already queued when a CLOSE settles are attributed to the overlap window (MAY)"]

FILTERS = [
    {"kinds": [1]}, {"kinds": [1, 2]}, {"kinds": [2]}, {"authors": [E.PKS[0]]}, {"#t": ["a"]}, {"#t": ["a", ""]},
    {"kinds": [1], "since": E.T0 + 3}, {"kinds": [1, 2], "until": E.T0 + 4}, {"kinds": [20000]},
    {"authors": [E.PKS[1]], "kinds": [1]}, {"#t": [""]},
    # "only what is new from now on": a subscription without stored results is as open as any other
    {"kinds": [1], "limit": 0}, {"kinds": [1, 2], "#t": ["a"], "limit": 0},
]
SUBS = ["s1", "s2", "s3", 'q"uote', "a\\u0041", "aA"]   # ids needing JSON escaping; one that un-escapes to another one
TAGSETS = [[], [["t", "a"]], [["t", ""]], [["t", "b"]], [["t", "a"], ["t", ""]],
           # NIP-26: a genuine delegation by key 0 (named in authors filters) / by key 2 (named in none), resolved at run time
           [["delegation", "@0"]], [["delegation", "@2"]], [["t", "a"], ["delegation", "@2"]]]


def resolve_tags(tags, author_k, kind):
    return [E.delegation_tag(int(t[1][1:]), E.PKS[author_k], "kind=%d" % kind)
            if t[0] == "delegation" and isinstance(t[1], str) and t[1].startswith("@") else t for t in tags]


@st.composite
def st_schedule(draw):
    backend = draw(st.sampled_from(["kv", "kv", "sql"]))
    ops = []
    n = draw(st.integers(6, 30))
    for _ in range(n):
        k = draw(st.integers(0, 21))
        c = draw(st.integers(0, 3))
        if k <= 4:
            # index -1 stands for an unusable filter ({"kinds": "x"}); a REQ made only of those (or of none)
            # opens nothing but still ends the subscription whose id it reuses
            ops.append(["req", c, draw(st.sampled_from(SUBS)),
                        draw(E.weighted((8, st.lists(st.integers(0, len(FILTERS) - 1), min_size=1, max_size=2)),
                                        (1, st.just([-1])), (1, st.just([])), (1, st.just([-1, 0])),
                                        # index -2: a filter without any condition ({"limit": 20}) - valid JSON-wise, refused
                                        # as a scan by both backends - placed BEFORE a usable filter
                                        (2, st.tuples(st.just(-2), st.integers(0, len(FILTERS) - 1)).map(list)),
                                        # index -3: a filter given up only after one of its tag values was taken in
                                        # ({"#p": [...], "#e": []}: an empty list matches nothing) next to a usable one
                                        (2, st.tuples(st.just(-3), st.integers(0, len(FILTERS) - 1)).map(list)),
                                        (1, st.tuples(st.integers(0, len(FILTERS) - 1), st.just(-3)).map(list)))),
                        draw(st.sampled_from([0, 1, 2]))])
        elif k <= 9:
            ops.append(["event", c, draw(st.sampled_from([1, 1, 2, 7, 20000])), draw(st.integers(0, 1)),
                        draw(st.integers(0, len(TAGSETS) - 1)),
                        draw(st.sampled_from(["ok", "ok", "ok", "ok", "badsig", "dup"])), draw(st.sampled_from([0, 1, 2]))])
        elif k == 10:
            ops.append(["close", c, draw(st.sampled_from(SUBS))])
        elif k == 11:
            ops.append(["disconnect", c])
        elif k <= 13:
            ops.append(["settle"])
        elif k == 14:
            ops.append(["park", draw(st.booleans())])
        elif k == 15:
            ops.append(["release", draw(st.integers(0, 2))])
        elif k == 16:
            ops.append(["pump", draw(st.integers(1, 3))])
        elif k == 20:
            ops.append(["qpark", draw(st.booleans())])
        elif k == 21:
            ops.append(["qrelease", draw(st.integers(0, 2))])
        else:
            ops.append(["yield", draw(st.integers(1, 6))])
    if draw(st.integers(0, 3)) == 0:
        # motif: an event is accepted while the stored query of a freshly opened subscription is still running (LMDB:
        # the query job is held back), then the query completes before / after the writer applied the event
        motif = [["qpark", True],
                 ["req", draw(st.integers(0, 3)), draw(st.sampled_from(SUBS)), [draw(st.integers(0, len(FILTERS) - 1))], 0],
                 ["yield", draw(st.integers(3, 6))],
                 ["event", draw(st.integers(0, 3)), draw(st.sampled_from([1, 1, 2])), draw(st.integers(0, 1)),
                  draw(st.integers(0, len(TAGSETS) - 1)), "ok", 0],
                 ["yield", draw(st.integers(3, 6))]]
        motif += draw(st.sampled_from([[], [["pump", 1]], [["qrelease", 0], ["yield", 3]]]))
        at = draw(st.integers(0, len(ops)))
        ops[at:at] = motif
    if draw(st.integers(0, 3)) == 0:
        # motif: the same new event arrives on two or three connections in the same instant
        k = draw(st.integers(2, 3))
        cs = draw(st.permutations([0, 1, 2, 3]))[:k]
        first = ["event", cs[0], draw(st.sampled_from([1, 1, 2])), draw(st.integers(0, 1)), draw(st.integers(0, len(TAGSETS) - 1)), "ok", 0]
        motif = [first] + [["event", c, 1, 0, 0, "dup-last", 0] for c in cs[1:]] + [["yield", draw(st.integers(4, 8))]]
        at = draw(st.integers(0, len(ops)))
        ops[at:at] = motif
    return {"backend": backend, "ops": ops}


class Fanout(Sub):
    name = "fanout"
    examples = {"quick": 1200, "thorough": 6000}
    shards = {"quick": 16, "thorough": 16}
    rule = RULE

    def strategy(self, tier):
        return st_schedule()

    def run_case(self, case):
        return H.run(self._run, case)

    async def _run(self, case):
        backend = case["backend"]
        viol = []
        labels = ["backend:" + backend]
        async with H.Rig(backend, file_db=True if backend == "sql" else None) as rig:
            loop = asyncio.get_running_loop()
            vexec = loop.inline_executor
            qpool = rig.storage.query_pool if backend == "kv" else H.InlineExecutor()
            conns = {}
            seen_len = {}
            frames = {}      # conn -> list of (op index, parsed frame)
            instances = []   # dicts
            events = []      # dicts
            last_ok = None
            counter = 0
            sched_between = False
            pending_feed = False

            def snapshot(t):
                for ci, c in conns.items():
                    for raw in c.out[seen_len[ci]:]:
                        try:
                            f = json.loads(raw)
                            if not (isinstance(f, list) and len(f) >= 2):
                                raise ValueError(raw)
                        except ValueError:
                            bad_frames.append(raw)
                            continue
                        frames[ci].append((t, f))
                        if f[0] == "EOSE":
                            mine = [I for I in instances if I["conn"] == ci and I["sub"] == f[1]]
                            if mine and mine[-1]["t_eose"] is None:
                                mine[-1]["t_eose"] = t
                    seen_len[ci] = len(c.out)
                # the registry is the authoritative set of open subscriptions: an instance is open from the first
                # moment it is seen there (only when the entry cannot belong to an earlier instance of that id)
                for cid, subs in list(rig.storage.clients.items()):
                    ci = addr2ci.get(str(cid).rsplit("-", 1)[0])
                    for sub_id in list(subs):
                        mine = [I for I in instances if I["conn"] == ci and I["sub"] == sub_id]
                        if not mine:
                            continue
                        L = mine[-1]
                        if L["t_reg"] is None and L["t_end_fed"] is None and all(
                                J["t_end_settled"] is not None and J["t_end_settled"] <= L["t_fed"] for J in mine[:-1]):
                            L["t_reg"] = t

            def get_conn(ci):
                if ci not in conns:
                    conns[ci] = rig.conn("10.0.0.%d" % (ci + 1))
                    addr2ci["10.0.0.%d" % (ci + 1)] = ci
                    seen_len[ci] = 0
                    frames[ci] = []
                return conns[ci]

            def mark_settled(t):
                for I in instances:
                    if I["t_settled"] is None:
                        I["t_settled"] = t
                    if I["t_end_fed"] is not None and I["t_end_settled"] is None:
                        I["t_end_settled"] = t
                for ev in events:
                    if ev["t_settled"] is None:
                        ev["t_settled"] = t

            alive = {}
            addr2ci = {}
            bad_frames = []
            for t, op in enumerate(case["ops"]):
                if op[0] in ("req", "event", "close", "disconnect"):
                    ci = op[1]
                    c = get_conn(ci)
                    if alive.get(ci, True) is False or c.task.done():
                        continue
                if op[0] == "req":
                    for I in instances:
                        if I["conn"] == ci and I["sub"] == op[2] and I["t_end_fed"] is None:
                            I["t_end_fed"] = t
                    fl = [FILTERS[i] for i in op[3] if i >= 0]
                    if -2 in op[3]:
                        labels.append("condition-less-filter-first")
                    if fl:
                        instances.append({"conn": ci, "sub": op[2], "filters": fl, "t_fed": t, "t_settled": None,
                                          "t_end_fed": None, "t_end_settled": None, "t_reg": None, "t_eose": None})
                    else:
                        labels.append("req-without-usable-filter")
                    c.feed(["REQ", op[2]] + [FILTERS[i] if i >= 0 else ({"kinds": "x"} if i == -1 else {"limit": 20} if i == -2 else
                                                                        {"#p": [E.PKS[0]], "#e": []})
                                             for i in op[3]], op[4])
                    pending_feed = True
                elif op[0] == "event":
                    counter += 1
                    mode = op[5]
                    if mode in ("dup", "dup-last") and any(e["valid"] for e in events):
                        valid_evs = [e for e in events if e["valid"]]
                        src = valid_evs[-1] if mode == "dup-last" else valid_evs[counter % len(valid_evs)]
                        if mode == "dup-last" and src["t_settled"] is None:
                            labels.append("same-event-on-several-connections-at-once")
                        c.feed(["EVENT", src["ev"]], op[6])
                        src["dups"] += 1
                    else:
                        ev = E.make(op[3], op[2], E.T0 + counter, resolve_tags(TAGSETS[op[4]], op[3], op[2]), "e%d" % counter)
                        if any(t[0] == "delegation" for t in ev["tags"]):
                            labels.append("delegated-event")
                        valid = mode != "badsig"
                        if not valid:
                            ev["sig"] = "00" * 64
                        events.append({"ev": ev, "conn": ci, "t_fed": t, "t_settled": None, "valid": valid, "dups": 0})
                        c.feed(["EVENT", ev], op[6])
                    pending_feed = True
                elif op[0] == "close":
                    for I in instances:
                        if I["conn"] == ci and I["sub"] == op[2] and I["t_end_fed"] is None:
                            I["t_end_fed"] = t
                    c.feed(["CLOSE", op[2]])
                    pending_feed = True
                elif op[0] == "disconnect":
                    for I in instances:
                        if I["conn"] == ci and I["t_end_fed"] is None:
                            I["t_end_fed"] = t
                    alive[ci] = False
                    c.feed(None)
                    pending_feed = True
                elif op[0] == "settle":
                    vexec.park = False
                    vexec.release_all()
                    qpool.park = False
                    qpool.release_all()
                    rig.release_query_slots()
                    await rig.settle()
                    mark_settled(t)
                    pending_feed = False
                elif op[0] == "park":
                    if backend == "kv":
                        vexec.park = op[1]
                        sched_between = sched_between or (op[1] and pending_feed)
                elif op[0] == "release":
                    if vexec.release(op[1]):
                        sched_between = sched_between or pending_feed
                    for _ in range(3):
                        await asyncio.sleep(0)
                elif op[0] == "qpark":
                    if backend == "kv":
                        qpool.park = op[1]
                        sched_between = sched_between or (op[1] and pending_feed)
                    elif op[1]:
                        # SQL: every query slot is taken (long queries of other clients): stored queries wait
                        await rig.hold_query_slots()
                        labels.append("sql-query-slots-held")
                    else:
                        rig.release_query_slots()
                elif op[0] == "qrelease":
                    if qpool.release(op[1]) or rig.release_query_slots():
                        sched_between = sched_between or pending_feed
                    for _ in range(3):
                        await asyncio.sleep(0)
                elif op[0] == "pump":
                    rig.pump(op[1])
                    sched_between = sched_between or pending_feed
                elif op[0] == "yield":
                    for _ in range(op[1]):
                        await asyncio.sleep(0)
                    sched_between = sched_between or pending_feed
                snapshot(t)
            T = len(case["ops"])
            vexec.park = False
            vexec.release_all()
            qpool.park = False
            qpool.release_all()
            rig.release_query_slots()
            await rig.settle()
            mark_settled(T)
            snapshot(T)
            if rig.stuck:
                viol.append(V("stuck-on-lock", "tasks finish", waiting=rig.stuck))
            if bad_frames:
                viol.append(V("frame-not-deliverable", "a frame that does not parse reaches no subscription", raw=bad_frames[0][:200]))
            # which events were accepted (OK true seen on the submitting connection)
            accepted = {}
            for ev in events:
                # a duplicate may have been submitted on another connection and may even win the race
                oks = [f for fl in frames.values() for (_, f) in fl if f[0] == "OK" and f[1] == ev["ev"]["id"]]
                ev["accepted"] = any(o[2] is True for o in oks)
            stored = await rig.dump()
            nt = False
            for ev in events:
                e = ev["ev"]
                eph = R.is_ephemeral(e["kind"])
                groups = {}
                for I in instances:
                    groups.setdefault((I["conn"], I["sub"]), []).append(I)
                open_match = open_non = 0
                for (ci, sub), insts in groups.items():
                    actual = sum(1 for (_, f) in frames[ci] if f[0] == "EVENT" and f[1] == sub and f[2]["id"] == e["id"])
                    must = 0
                    allowed = 0
                    for I in insts:
                        may = any(R.may_match(e, f) for f in I["filters"])
                        mst = any(R.must_match(e, f) for f in I["filters"])
                        closed_before = I["t_end_settled"] is not None and I["t_end_settled"] <= ev["t_fed"]
                        opened_after = I["t_fed"] > ev["t_settled"]
                        registered = I["t_settled"] <= ev["t_fed"] or (I["t_reg"] is not None and I["t_reg"] < ev["t_fed"])
                        certainly = registered and (I["t_end_fed"] is None or I["t_end_fed"] > ev["t_settled"])
                        if certainly and I["t_settled"] > ev["t_fed"] and I["t_eose"] is not None and I["t_eose"] > ev["t_fed"]:
                            labels.append("accepted-while-stored-query-runs")
                        if certainly:
                            if mst:
                                open_match += 1
                            elif not may:
                                open_non += 1
                        if not ev["accepted"] or not may or closed_before:
                            continue
                        k_may = sum(1 for f in I["filters"] if R.may_match(e, f))  # stored copies: one per matching filter
                        if opened_after:
                            allowed += k_may  # SQL keeps ephemeral events until the next GC pass: a stored copy is MAY
                        elif I["t_settled"] <= ev["t_fed"]:
                            allowed += 1
                        else:
                            allowed += 1 + k_may
                        if certainly and mst:
                            must += 1
                    if eph and allowed:
                        allowed += ev["dups"]  # an ephemeral event is not stored: re-sending it may broadcast it again
                    if actual < must:
                        viol.append(V("%s-live-event-not-delivered" % backend,
                                      "every open matching subscription receives an accepted event",
                                      conn=ci, sub=sub, event=_brief(e), got=actual, must=must, instances=insts))
                    if actual > allowed:
                        why = ("refused-event" if not ev["accepted"] else "non-matching-or-closed" if allowed == 0 else "duplicate-copy")
                        viol.append(V("%s-delivered-too-often:%s" % (backend, why),
                                      "no closed, replaced, disconnected or non-matching subscription receives it, and each open one once",
                                      conn=ci, sub=sub, event=_brief(e), got=actual, allowed=allowed, dups=ev["dups"],
                                      instances=insts))
                if ev["accepted"] and open_match and open_non and len(conns) >= 2:
                    nt = True
                if viol:
                    break
            # live == stored for instances still open at the end
            if not viol:
                for I in instances:
                    if I["t_end_fed"] is not None or not alive.get(I["conn"], True):
                        continue
                    now = {g["id"] for g in await rig.query([dict(f, limit=50) for f in I["filters"]])}
                    for ev in events:
                        e = ev["ev"]
                        if not ev["accepted"] or R.is_ephemeral(e["kind"]) or e["id"] not in stored:
                            continue
                        if ev["t_fed"] < I["t_settled"]:
                            continue
                        if any(R.may_match(e, f) != R.must_match(e, f) for f in I["filters"]):
                            continue  # on a since/until bound
                        live = any(f[0] == "EVENT" and f[1] == I["sub"] and f[2]["id"] == e["id"] for (_, f) in frames[I["conn"]])
                        if live != (e["id"] in now):
                            bare = dict(e, tags=[t for t in e["tags"] if not (t and t[0] == "delegation")])
                            via = "" if any(R.must_match(bare, f) for f in I["filters"]) else ":delegator"  # matches only through NIP-26
                            viol.append(V("%s-live-differs-from-stored:%s%s" % (backend, "live-only" if live else "stored-only", via),
                                          "live matching agrees with stored matching",
                                          filters=I["filters"], event=_brief(e), live=live, stored=e["id"] in now))
                            break
                    if viol:
                        break
            for c in conns.values():
                if c.log.exceptions:
                    viol.append(V("handler-exception-logged", "no exception in the handler", exc=c.log.exceptions[0][1][-300:]))
                if not c.task.done():
                    await c.disconnect()
        return Result(viol, nt and sched_between, labels + (["sched-between"] if sched_between else []))


def _brief(e):
    return {"id": e["id"][:12], "kind": e["kind"], "pubkey": e["pubkey"][:8], "created_at": e["created_at"], "tags": e["tags"]}


class WriterWindow(Sub):
    """LMDB: a duplicate arriving while the writer thread is INSIDE the write transaction of the first copy"""

    name = "writer-window"
    examples = {"quick": 200, "thorough": 1600}
    shards = {"quick": 4, "thorough": 8}
    rule = ("LMDB with the writer's run() on a real thread that the harness gates at the k-th index mutation of the "
            "first copy's transaction; the same event is resubmitted on another connection inside that window; "
            "non-trivial = the gate was reached strictly inside the transaction")

    def strategy(self, tier):
        return st.tuples(st.integers(0, 8), st.sampled_from([1, 10000, 30000]), st.integers(0, 3)).map(list)

    def run_case(self, case):
        return H.run(self._run, case)

    async def _run(self, case):
        import threading
        import lmdb

        k, kind, older = case
        viol = []
        async with H.Rig("kv") as rig:
            w = rig.conn("10.0.0.9")
            await w.send(["REQ", "w", {"since": 1}])
            for i in range(older):   # older versions make the transaction longer (supersession deletes)
                await rig.add(E.make(0, kind, E.T0 + i, [["t", "a"], ["d", "x"]], "old%d" % i))
            ev = E.make(0, kind, E.T0 + 50, [["t", "a"], ["d", "x"]], "the event")
            a = rig.conn("10.0.0.1")
            b = rig.conn("10.0.0.2")
            n0 = len(w.out)
            a.feed(["EVENT", ev])
            await H.settle(rig, pump=False)
            reached, go = threading.Event(), threading.Event()
            n = [0]

            def hook(op, key):
                if n[0] == k:
                    reached.set()
                    go.wait(20)
                n[0] += 1

            lmdb.FAULT_HOOK = hook
            th = threading.Thread(target=rig.pump)
            th.start()
            inside = reached.wait(5)
            try:
                b.feed(["EVENT", ev])
                await H.settle(rig, pump=False)
            finally:
                go.set()
                th.join(30)
                lmdb.FAULT_HOOK = None
            await rig.settle()
            pushes = [f for f in w.frames(n0) if f[0] == "EVENT" and f[2]["id"] == ev["id"]]
            if len(pushes) != 1:
                viol.append(V("kv-duplicate-in-writer-window-rebroadcast",
                              "an event reaches each open matching subscription exactly once",
                              pushes=len(pushes), gate=k, inside=inside))
            stored = await rig.dump()
            if ev["id"] not in stored:
                viol.append(V("kv-event-lost-in-writer-window", "an acknowledged event is stored", gate=k))
            for c in (a, b, w):
                await c.disconnect()
        return Result(viol, bool(inside), ["gate-reached" if inside else "gate-not-reached"])


class Crowd(Sub):
    """many connections from ONE address (reverse proxy / NAT), each with a subscription under the same id"""

    name = "crowd"
    examples = {"quick": 16, "thorough": 128}
    shards = {"quick": 8, "thorough": 16}
    rule = ("N=700..1000 connections with identical remote address and the same subscription id, one matching event, then "
            "half of them disconnect and a second event: every open subscription gets each event exactly once; "
            "non-trivial = always (>= 700 concurrent registry entries)")

    def strategy(self, tier):
        # LMDB only: the subscription registry is shared code (storage/base.py) and a thousand simultaneous SQL queries
        # only measure the harness's patience
        return st.tuples(st.just("kv"), st.integers(700, 1000), st.integers(0, 10**6)).map(list)

    def run_case(self, case):
        return H.run(self._run, case)

    async def _run(self, case):
        import random
        import types
        import nostr_relay.util as U

        backend, n, salt = case
        viol = []
        # connection ids take 2 random bytes from the OS; make that stream a function of the case so a failure replays
        stream = random.Random(salt)
        real_secrets = U.secrets
        U.secrets = types.SimpleNamespace(token_hex=lambda k=2: "%0*x" % (2 * k, stream.getrandbits(8 * k)))
        try:
            return await self._crowd(backend, n, salt, viol)
        finally:
            U.secrets = real_secrets

    async def _crowd(self, backend, n, salt, viol):
        async with H.Rig(backend, file_db=True if backend == "sql" else None) as rig:
            conns = [rig.conn("10.7.7.7") for _ in range(n)]
            for c in conns:
                c.feed(["REQ", "s", {"kinds": [1]}])
            await rig.settle()
            pub = rig.conn("10.7.7.8")
            ev1 = E.make(0, 1, E.T0 + 1, [], "crowd-%d" % salt)
            await pub.send(["EVENT", ev1])
            bad = [i for i, c in enumerate(conns)
                   if sum(1 for f in c.frames() if f[0] == "EVENT" and f[2]["id"] == ev1["id"]) != 1]
            if bad:
                viol.append(V("%s-crowd-delivery" % backend, "every open matching subscription receives the event exactly once",
                              connections=n, wrong=len(bad), first=bad[:5]))
            else:
                for c in conns[::2]:
                    c.feed(None)
                await rig.settle()
                ev2 = E.make(1, 1, E.T0 + 2, [], "crowd2-%d" % salt)
                await pub.send(["EVENT", ev2])
                bad = [i for i, c in enumerate(conns) if i % 2 == 1
                       and sum(1 for f in c.frames() if f[0] == "EVENT" and f[2]["id"] == ev2["id"]) != 1]
                gone = [i for i, c in enumerate(conns) if i % 2 == 0
                        and any(f[0] == "EVENT" and f[2]["id"] == ev2["id"] for f in c.frames())]
                if bad or gone:
                    viol.append(V("%s-crowd-delivery-after-disconnects" % backend,
                                  "other connections' disconnects do not affect open subscriptions", connections=n,
                                  wrong=len(bad), delivered_to_disconnected=len(gone)))
            for c in conns[1::2] + [pub]:
                c.feed(None)
            await rig.settle()
        return Result(viol, True, ["backend:" + backend], sample={"backend": backend, "connections": n})


class StalledReader(Sub):
    """one connection stops reading while its subscriptions keep matching: everybody else is unaffected"""

    name = "stalled-reader"
    examples = {"quick": 48, "thorough": 384}
    shards = {"quick": 12, "thorough": 16}
    rule = ("connection A opens 1..32 subscriptions over 0..30 stored events and stops reading; B holds a live "
            "subscription; C publishes 1..40 matching events; A then resumes or disconnects; non-trivial = A's backlog "
            "(subscriptions x (stored + EOSE + live)) exceeds 500 frames; distinct by case")

    def strategy(self, tier):
        return st.tuples(st.sampled_from(["kv", "kv", "sql"]), st.sampled_from([1, 2, 8, 20, 32]), st.sampled_from([0, 5, 30]),
                         st.sampled_from([1, 3, 16, 40]), st.sampled_from(["resume", "disconnect", "stay"])).map(list)

    def run_case(self, case):
        return H.run(self._run, case)

    async def _run(self, case):
        backend, n_subs, n_stored, n_live, ending = case
        viol = []
        backlog = n_subs * (n_stored + 1 + n_live)
        labels = ["backend:" + backend, "ending:" + ending, "backlog>500" if backlog > 500 else "backlog<=500"]
        async with H.Rig(backend, file_db=True if backend == "sql" else None) as rig:
            for i in range(n_stored):
                await rig.add(E.make(i % 3, 1, E.T0 + i, [], "stored%d" % i))
            a = rig.conn("10.0.1.1")
            a.stall()
            for i in range(n_subs):
                a.feed(["REQ", "a%d" % i, {"kinds": [1]}])
            await rig.settle()
            b = rig.conn("10.0.1.2")
            await b.send(["REQ", "b", {"kinds": [1], "since": E.T0 + 1000}])
            c = rig.conn("10.0.1.3")
            lives = [E.make(i % 3, 1, E.T0 + 1000 + i, [], "live%d" % i) for i in range(n_live)]
            extra = []
            if ending == "disconnect" and len(lives) > 1:
                lives, extra = lives[:-1], lives[-1:]

            async def publish(evs):
                for i, ev in enumerate(evs):
                    got = [f for f in [json.loads(x) for x in await c.send(["EVENT", ev])] if f[0] == "OK"]
                    if rig.stuck:
                        viol.append(V("%s-stalled-reader-blocks-relay" % backend,
                                      "a connection that does not read does not affect acceptance or delivery for others",
                                      after_events=i, waiting=rig.stuck, backlog=backlog))
                        return False
                    if len(got) != 1 or got[0][2] is not True:
                        viol.append(V("%s-stalled-reader-event-not-acknowledged" % backend,
                                      "an accepted event is acknowledged while another connection does not read",
                                      after_events=i, frames=got))
                        return False
                return True

            ok = await publish(lives)
            if ok and ending == "disconnect":
                a.feed(None)
                await rig.settle()
                ok = await publish(extra)
                lives = lives + extra
            if ok and ending == "resume":
                a.stall(False)
                await rig.settle()
                for i in range(n_subs):
                    sub = "a%d" % i
                    fr = [f for f in a.frames() if len(f) > 1 and f[1] == sub]
                    n_eose = sum(1 for f in fr if f[0] == "EOSE")
                    for ev in lives:
                        k = sum(1 for f in fr if f[0] == "EVENT" and f[2]["id"] == ev["id"])
                        if k != 1:
                            viol.append(V("%s-resumed-reader-delivery" % backend,
                                          "every open matching subscription receives the event exactly once",
                                          sub=sub, copies=k, event=_brief(ev)))
                            break
                    n_st = sum(1 for f in fr if f[0] == "EVENT" and f[2]["content"].startswith("stored"))
                    if n_eose != 1 or n_st != n_stored:
                        viol.append(V("%s-resumed-reader-stored" % backend, "stored events then one EOSE",
                                      sub=sub, eose=n_eose, stored=n_st, expected=n_stored))
                    if viol:
                        break
            if ok:
                for ev in lives:
                    k = sum(1 for f in b.frames() if f[0] == "EVENT" and f[1] == "b" and f[2]["id"] == ev["id"])
                    if k != 1:
                        viol.append(V("%s-bystander-delivery" % backend,
                                      "every open matching subscription receives the event exactly once",
                                      copies=k, event=_brief(ev), backlog=backlog))
                        break
            a.stall(False)
            for x in (a, b, c):
                if not x.task.done():
                    x.feed(None)
            await rig.settle()
        return Result(viol, backlog > 500, labels, sample={"case": case, "backlog": backlog})


SUBCHECKS = [Fanout(), WriterWindow(), Crowd(), StalledReader()]
