"""
C11 - query answers are unaffected by unrelated data and monotone in the filter.

Metamorphic relations on (store, filter), both backends:
  neighbours   adding, then removing, constructed NON-matching neighbour events (next/previous
               kind, last-byte-different ids/pubkeys, tag values extending/prefixing the
               requested one, timestamps just outside the window) leaves the answer unchanged
  strengthen   adding a condition / shrinking the window never adds results
  union        answer([v1,v2,..]) == union of answers([vi])
  permute      permuting / duplicating values inside a condition changes nothing
Events that sit exactly on a since/until bound are excluded from comparisons (MAY zone).
"""
import json

from hypothesis import strategies as st

from vlib import events as E
from vlib import harness as H
from vlib import qgen
from vlib import refmodel as R
from vlib.core import Result, Sub, V

LEVEL = "exploration"
RULE = ("paired runs on stores/filters from the C02 generators; non-trivial = the base answer is non-empty "
        "and (neighbours) a neighbour's key is adjacent to a matching event's key in some LMDB index / "
        "(others) the two answers being compared are not both empty; distinct by hash of the case")
ASSUMPTIONS = ["SQLite only; LMDB engine modelled", "no limit truncates (stores <= 25 events, max_limit 60)",
               "events exactly on a since/until bound may flip and are not compared"]


def boundary_only(ev, f):
    return R.may_match(ev, f) and not R.must_match(ev, f)


def comparable(ids, stored, f):
    return {i for i in ids if i in stored and not boundary_only(stored[i], f)}


def last_byte_variants(h):
    b = bytes.fromhex(h)
    out = []
    for d in (1, -1):
        v = (b[-1] + d) % 256
        out.append((b[:-1] + bytes([v])).hex())
    return out


@st.composite
def st_neighbours(draw, store, f):
    """events built next to the filter's values that must NOT match it"""
    out = []
    base = [e for e in store if R.may_match(e, f)] or store
    n = draw(st.integers(1, 6))
    for j in range(n):
        tmpl = dict(draw(st.sampled_from(base)))
        tmpl["tags"] = [list(t) for t in tmpl["tags"]]
        tmpl["id"] = draw(st.sampled_from(last_byte_variants(tmpl["id"]) + [draw(st.binary(min_size=32, max_size=32)).hex()]))
        how = draw(st.sampled_from(["kind", "pubkey", "tag", "ts", "id"]))
        if how == "kind" and "kinds" in f:
            k = draw(st.sampled_from(f["kinds"]))
            tmpl["kind"] = draw(st.sampled_from([k + 1, max(k - 1, 0), k * 256 if k else 256, 7]))
            if tmpl["kind"] in (0, 3, 5) or tmpl["kind"] >= 10000:
                tmpl["kind"] = 7
        elif how == "pubkey" and "authors" in f:
            tmpl["pubkey"] = draw(st.sampled_from(last_byte_variants(draw(st.sampled_from(f["authors"])))))
        elif how == "tag" and any(k.startswith("#") for k in f):
            key = draw(st.sampled_from([k for k in f if k.startswith("#")]))
            val = draw(st.sampled_from(f[key]))
            nv = draw(st.sampled_from([val + "c", val + "\x00", val[:-1], val + " ", val + "\x00x", val.upper()]))
            tmpl["tags"] = [t for t in tmpl["tags"] if t[0] != key[1]] + [[key[1], nv]]
        elif how == "ts" and ("since" in f or "until" in f):
            if "since" in f and ("until" not in f or draw(st.booleans())):
                tmpl["created_at"] = max(1, f["since"] - draw(st.sampled_from([1, 2, 256])))
            else:
                tmpl["created_at"] = f["until"] + draw(st.sampled_from([1, 2, 256]))
        elif how == "id" and "ids" in f:
            pass  # id already differs in the last byte
        else:
            tmpl["kind"] = 7 if tmpl["kind"] != 7 else 4
        if tmpl["kind"] in (0, 3) or 10000 <= tmpl["kind"] < 40000:
            continue  # keep the store free of supersession side effects
        out.append(tmpl)
    return out


@st.composite
def st_case(draw, rel):
    backend = draw(st.sampled_from(["kv", "kv", "sql"]))
    store = draw(qgen.st_store(min_events=2, max_events=18))
    fs = qgen.st_filter(store)
    if rel == "union":
        fs = fs.filter(lambda f: any(isinstance(v, list) and len(v) > 1 for v in f.values()))
    f = draw(fs)
    if rel in ("strengthen", "neighbours") and draw(st.integers(0, 7)) == 0:
        # the base filter asks for a tag value at / beyond what an index key can hold, carried by one stored event
        ev = draw(st.sampled_from(store))
        name = draw(st.sampled_from(["t", "r", "e"]))
        val = draw(st.sampled_from([qgen.VLONG, qgen.VLONG[:466], qgen.VLONG[:467], qgen.VLONG[:468], qgen.LONG]))
        ev["tags"] = ev["tags"] + [[name, val]]
        f = {"#" + name: [val]}
    case = {"backend": backend, "store": store, "filter": f, "rel": rel}
    if rel == "neighbours":
        case["neighbours"] = draw(st_neighbours(store, f))
    elif rel == "strengthen":
        g = dict(f)
        extra = draw(qgen.st_filter(store))
        for k, v in extra.items():
            if k in ("since",) and "since" in g:
                g["since"] = max(g["since"], v)
            elif k in ("until",) and "until" in g:
                g["until"] = min(g["until"], v)
            elif k in g and isinstance(v, list):
                sub = [x for x in g[k] if draw(st.booleans())]
                g[k] = sub or g[k][:1]
            else:
                g[k] = v
        case["stronger"] = g
    elif rel == "permute":
        g = {}
        for k, v in f.items():
            if isinstance(v, list):
                v2 = list(draw(st.permutations(v)))
                if draw(st.booleans()):
                    v2 = v2 + [v2[0]]
                g[k] = v2
            else:
                g[k] = v
        case["permuted"] = g
    return case


class Relation(Sub):
    shards = {"quick": 8, "thorough": 16}

    def __init__(self, rel, quick, thorough):
        self.name = rel
        self.rel = rel
        self.examples = {"quick": quick, "thorough": thorough}
        self.rule = RULE

    def strategy(self, tier):
        return st_case(self.rel)

    def run_case(self, case):
        return H.run(self._run, case)

    async def _ids(self, rig, f):
        return [e["id"] for e in await rig.query([dict(f, limit=50)])]

    async def _run(self, case):
        backend, f, rel = case["backend"], case["filter"], case["rel"]
        viol = []
        labels = ["backend:" + backend]
        nt = False
        if not (R.wellformed_filter(f) and R.has_condition(f)):
            return Result([], False, ["out-of-domain"])
        async with H.Rig(backend, validators=[]) as rig:
            for ev in case["store"]:
                await rig.add(ev)
            stored = await rig.dump()
            r0 = await self._ids(rig, f)
            c0 = comparable(r0, stored, f)
            if rel == "neighbours":
                nbs = [n for n in case["neighbours"] if not R.may_match(n, f) and n["id"] not in stored]
                seen = set()
                nbs = [n for n in nbs if not (n["id"] in seen or seen.add(n["id"]))]
                for n in nbs:
                    await rig.add(n)
                st1 = await rig.dump()
                r1 = await self._ids(rig, f)
                c1 = comparable(r1, st1, f)
                if c1 != c0 or sorted(r1) != sorted(set(r1)):
                    viol.append(V("%s-neighbour-insert-changes-answer" % backend,
                                  "adding non-matching events never changes the answer",
                                  backend=backend, filter=f, lost=sorted(c0 - c1), gained=sorted(c1 - c0),
                                  neighbours=nbs))
                if backend == "kv" and nbs and c0:
                    keys = sorted(k for k, _ in rig.kv_items() if k[:1] not in (b"\x00", b"\xee"))
                    nid = {bytes.fromhex(n["id"]) for n in nbs}
                    mid = {bytes.fromhex(i) for i in c0}
                    for a, b in zip(keys, keys[1:]):
                        if a[:1] == b[:1] and ((a[-32:] in nid and b[-32:] in mid) or (a[-32:] in mid and b[-32:] in nid)):
                            labels.append("adjacent")
                            nt = True
                            break
                elif backend == "sql":
                    nt = bool(nbs and c0)
                for n in nbs:
                    await rig.storage.delete_event(n["id"])
                    await rig.settle()
                st2 = await rig.dump()
                r2 = await self._ids(rig, f)
                if comparable(r2, st2, f) != c0:
                    viol.append(V("%s-neighbour-removal-changes-answer" % backend,
                                  "removing non-matching events never changes the answer",
                                  backend=backend, filter=f, before=sorted(c0), after=sorted(r2)))
            elif rel == "strengthen":
                g = case["stronger"]
                if not (R.wellformed_filter(g) and R.has_condition(g)):
                    return Result([], False, ["out-of-domain"])
                rg = await self._ids(rig, g)
                extra = {i for i in comparable(rg, stored, g) if not boundary_only(stored[i], f)} - set(r0)
                if extra:
                    viol.append(V("%s-strengthening-adds-results" % backend,
                                  "adding a condition or shrinking the window never adds results",
                                  backend=backend, filter=f, stronger=g, extra=sorted(extra)))
                nt = bool(r0)
            elif rel == "union":
                fields = [k for k, v in f.items() if isinstance(v, list) and len(v) > 1]
                if not fields:
                    return Result([], False, ["single-valued"])
                k = fields[0]
                parts = set()
                for v in f[k]:
                    parts |= comparable(await self._ids(rig, dict(f, **{k: [v]})), stored, f)
                if parts != c0:
                    viol.append(V("%s-union-mismatch" % backend,
                                  "answer to a multi-value condition is the union of its single values",
                                  backend=backend, filter=f, field=k, whole=sorted(c0), union=sorted(parts)))
                nt = bool(c0 or parts)
                labels.append("field:" + ("tag" if k.startswith("#") else k))
            elif rel == "permute":
                rp = await self._ids(rig, case["permuted"])
                if comparable(rp, stored, f) != c0 or len(rp) != len(r0):
                    viol.append(V("%s-permutation-changes-answer" % backend,
                                  "permuting/duplicating values in a condition changes nothing",
                                  backend=backend, filter=f, permuted=case["permuted"], a=sorted(r0), b=sorted(rp)))
                nt = bool(c0)
        return Result(viol, nt, labels)


@st.composite
def st_crowd(draw):
    """A conjunction whose first-scanned condition is shared by a crowd of NEWER non-matching events: M matching events,
    an explicit limit >= M (so the limit truncates nothing), then 20..90 neighbours that carry one requested value but
    fail the other condition. Asked through the REQ path (the planner sees the client's limit there)."""
    shape = draw(st.sampled_from(["tag+tag", "tag+tag", "tag+kind", "author+tag", "kind+since", "author+kind+tag"]))
    m = draw(st.integers(1, 3))
    limit = draw(st.sampled_from([m, m, m + 1, 2 * m, 5]))
    x, y = "aa" * 32, "bb" * 32
    author, kind = qgen.PUBS[2], 1
    if shape == "tag+tag":
        f = {"#e": [x], "#p": [y]}
        good, bad = [["e", x], ["p", y]], draw(st.sampled_from([[["e", x], ["p", y[:-1] + "c"]], [["p", y], ["e", x[:-1] + "0"]],
                                                               [["e", x]], [["p", y]]]))
    elif shape == "tag+kind":
        f = {"#t": ["a"], "kinds": [1]}
        good, bad = [["t", "a"]], draw(st.sampled_from([[["t", "a"]], [["t", "ab"]]]))
    elif shape == "author+tag":
        f = {"authors": [author], "#t": ["a"]}
        good, bad = [["t", "a"]], draw(st.sampled_from([[["t", "b"]], []]))
    elif shape == "kind+since":
        f = {"kinds": [1], "since": E.T0 - 5}
        good, bad = [], []
    else:
        f = {"authors": [author], "kinds": [1], "#t": ["a"]}
        good, bad = [["t", "a"]], [["t", "ab"]]
    f["limit"] = limit
    store = [E.free("%064x" % (0x1000 + i), author, kind, E.T0 + i, good, "m") for i in range(m)]
    n = draw(st.sampled_from([20, 25, 40, 61, 90]))
    newer = draw(st.sampled_from([True, True, False]))
    crowd = []
    for j in range(n):
        ev = E.free("%064x" % (0x2000 + j), author, kind, (E.T0 + 10 + j) if newer else (E.T0 - 100 - j), bad, "n")
        if shape == "tag+kind" and bad == good:
            ev["kind"] = 2
        if shape == "kind+since":
            ev["kind"] = draw(st.sampled_from([2, 256]))
        if shape == "author+tag" and not bad and j % 2:
            ev["pubkey"] = qgen.PUBS[3]
            ev["tags"] = [["t", "a"]]
        if shape == "author+kind+tag":
            ev["kind"] = 1 if j % 2 else 2
            ev["tags"] = [["t", "ab"]] if j % 2 else [["t", "a"]]
        crowd.append(ev)
    return {"backend": draw(st.sampled_from(["kv", "kv", "sql"])), "filter": f, "store": store, "crowd": crowd, "shape": shape}


class Crowd(Sub):
    name = "crowd"
    examples = {"quick": 240, "thorough": 1920}
    shards = {"quick": 8, "thorough": 16}
    rule = ("non-trivial = >= 20 newer non-matching events sharing one requested value with the matching ones, explicit "
            "limit >= number of matching events, asked as a REQ")

    def strategy(self, tier):
        return st_crowd()

    def run_case(self, case):
        return H.run(self._run, case)

    async def _run(self, case):
        backend, f = case["backend"], case["filter"]
        viol = []
        async with H.Rig(backend, validators=[]) as rig:
            for ev in case["store"]:
                await rig.add(ev)
            want = sorted(e["id"] for e in case["store"])
            evs, eose, err = await rig.req([f])
            r0 = sorted(e["id"] for e in evs)
            crowd = [n for n in case["crowd"] if not R.may_match(n, f)]
            for n in crowd:
                await rig.add(n)
            evs, eose, err = await rig.req([f])
            r1 = sorted(e["id"] for e in evs)
            if r0 != want or r1 != r0:
                viol.append(V("%s-crowd-changes-answer" % backend, "adding non-matching events never changes the answer",
                              backend=backend, filter=f, shape=case["shape"], before=r0, after=r1, expected=want,
                              crowd=len(crowd), error=err))
        return Result(viol, len(crowd) >= 20, ["backend:" + backend, "shape:" + case["shape"]])


SUBCHECKS = [Relation("neighbours", 1600, 12800), Relation("strengthen", 800, 6400),
             Relation("union", 800, 6400), Relation("permute", 500, 4000), Crowd()]
