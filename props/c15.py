"""
C15 - NIP-42 authentication succeeds only for a fresh, correctly signed answer.

For a connection's real challenge a valid kind-22242 answer is built and then mutated (kind, signature,
signer, challenge of another live / an earlier closed connection / truncated / case-changed / missing /
duplicated, relay tag absent / duplicated / substring / superstring / other scheme or port / empty / bare,
extra tags, created_at = now + {-601,-600,-599,0,599,600,601}, non-object payloads), in sequences of
attempts by two identities.  The identity in force is observed through token-dependent behaviour
(save needs role w = key A only, query needs role r = key B only).
  MUST authenticate : valid signature, kind 22242, |now-created_at| < 600, exactly one relay tag equal to a
                      configured URL, exactly one challenge tag equal to THIS connection's challenge
  MUST NOT          : bad signature, wrong kind, older/newer than 600 s, no tag carrying this connection's
                      challenge, no relay tag EQUAL to a configured URL
  MAY               : |delta| = 600, duplicated tags with one wrong value, forged id field
A failed attempt leaves the previous identity in force.  Challenges: 32 lower-case hex, all distinct over
20000 connections with identical address and frozen clock, and different across fresh processes.
"""
import json
import subprocess
import sys

from hypothesis import strategies as st

from vlib import bootstrap
from vlib import events as E
from vlib import harness as H
from vlib.core import Result, Sub, V

LEVEL = "exploration"
RULE = ("sequences of 1-4 AUTH attempts; non-trivial = an attempt differs from a valid answer in exactly one "
        "respect, or a success is followed by a failure; distinct by hash of the case")
ASSUMPTIONS = ["'unpredictable' cannot be decided by testing: only format, distinctness and independence from "
               "address / clock / process are checked", "clock injected through auth.time"]

URL = "ws://relay.example:7777"
URLS = [URL, "wss://other.example"]
MUTS = ["none", "none", "kind", "sig", "signer", "chal-other-live", "chal-closed", "chal-trunc", "chal-upper",
        "chal-missing", "chal-dup-right-first", "chal-dup-wrong-first", "relay-missing", "relay-dup-right-first",
        "relay-dup-wrong-first", "relay-substring", "relay-host-only", "relay-empty", "relay-superstring", "relay-scheme",
        "relay-port", "relay-bare", "relay-upper", "relay-second-url", "extra-tags", "d-601", "d-600", "d-599", "d599",
        "d600", "d601", "payload-str", "payload-list", "payload-null", "id-forged", "content", "ts-nan", "ts-inf",
        "ts-neg-inf", "ts-string-old", "ts-float-old",
        # a correct answer that also carries a genuine NIP-26 delegation from the OTHER key to the signer (any conditions): the
        # connection becomes the signer, never the delegator
        "deleg-victim", "deleg-victim-expired"]


def build(k, challenge, now, mut, other_chal, closed_chal):
    """returns (payload, verdict) verdict in must/mustnot/may"""
    tags = [["relay", URL], ["challenge", challenge]]
    kind = 22242
    ts = int(now)
    verdict = "must"
    if mut == "kind":
        kind, verdict = 22243, "mustnot"
    elif mut == "chal-other-live":
        tags[1][1], verdict = other_chal, "mustnot"
    elif mut == "chal-closed":
        tags[1][1], verdict = closed_chal, "mustnot"
    elif mut == "chal-trunc":
        tags[1][1], verdict = challenge[:-1], "mustnot"
    elif mut == "chal-upper":
        tags[1][1], verdict = challenge.upper(), ("mustnot" if challenge.upper() != challenge else "must")
    elif mut == "chal-missing":
        tags, verdict = [tags[0]], "mustnot"
    elif mut == "chal-dup-right-first":
        tags, verdict = tags + [["challenge", other_chal]], "may"
    elif mut == "chal-dup-wrong-first":
        tags, verdict = [tags[0], ["challenge", other_chal], tags[1]], "may"
    elif mut == "relay-missing":
        tags, verdict = [tags[1]], "mustnot"
    elif mut == "relay-dup-right-first":
        tags, verdict = [tags[0], ["relay", "ws://evil.example"], tags[1]], "may"
    elif mut == "relay-dup-wrong-first":
        tags, verdict = [["relay", "ws://evil.example"], tags[0], tags[1]], "may"
    elif mut == "relay-substring":
        tags[0][1], verdict = URL[:-2], "mustnot"
    elif mut == "relay-host-only":
        tags[0][1], verdict = "relay.example", "mustnot"
    elif mut == "relay-empty":
        tags[0][1], verdict = "", "mustnot"
    elif mut == "relay-superstring":
        tags[0][1], verdict = URL + "/x", "mustnot"
    elif mut == "relay-scheme":
        tags[0][1], verdict = URL.replace("ws://", "wss://"), "mustnot"
    elif mut == "relay-port":
        tags[0][1], verdict = URL[:-1] + ("8" if URL[-1] != "8" else "9"), "mustnot"
    elif mut == "relay-bare":
        tags[0], verdict = ["relay"], "mustnot"
    elif mut == "relay-upper":
        tags[0][1], verdict = URL.upper(), "mustnot"
    elif mut == "relay-second-url":
        tags[0][1] = URLS[1]
    elif mut == "extra-tags":
        tags = [["p", E.PKS[3]]] + tags + [["t", "x"]]
    elif mut in ("deleg-victim", "deleg-victim-expired"):
        cond = "kind=1" if mut == "deleg-victim" else "kind=1&created_at<1000"
        tags = tags + [E.delegation_tag(1 - k, E.PKS[k], cond)]
    elif mut.startswith("d"):
        delta = int(mut[1:])
        ts = int(now) + delta
        verdict = "must" if abs(delta) < 600 else "may" if abs(delta) == 600 else "mustnot"
    ev = E.make(k, kind, ts, tags, "auth" if mut == "content" else "")
    if mut in ("ts-nan", "ts-inf", "ts-neg-inf", "ts-string-old", "ts-float-old"):
        # a timestamp that is not "within ten minutes of now"; the event is signed over exactly what is sent
        ts2 = {"ts-nan": float("nan"), "ts-inf": float("inf"), "ts-neg-inf": float("-inf"),
               "ts-string-old": str(int(now) - 100000), "ts-float-old": float(int(now) - 100000)}[mut]
        from aionostr.event import Event

        ev["created_at"] = ts2
        ev["id"] = Event.compute_id(ev["pubkey"], ts2, kind, tags, ev["content"])
        ev["sig"] = E.sign_id(k, ev["id"])
        verdict = "mustnot"
    if mut == "sig":
        ev["sig"] = ev["sig"][:10] + ("0" if ev["sig"][10] != "0" else "1") + ev["sig"][11:]
        verdict = "mustnot"
    elif mut == "signer":
        ev["sig"] = E.sign_id((k + 1) % 2, ev["id"])
        verdict = "mustnot"
    elif mut == "id-forged":
        ev["id"] = "ab" * 32
        verdict = "may"
    if mut == "payload-str":
        return json.dumps(ev), "mustnot"
    if mut == "payload-list":
        return [ev], "mustnot"
    if mut == "payload-null":
        return None, "mustnot"
    return ev, verdict


class Auth(Sub):
    name = "auth"
    examples = {"quick": 1500, "thorough": 12000}
    shards = {"quick": 10, "thorough": 16}
    rule = RULE

    def strategy(self, tier):
        attempt = st.tuples(st.integers(0, 1), st.sampled_from(MUTS)).map(list)
        return st.tuples(st.sampled_from(["kv", "sql"]), st.sampled_from(["list", "list", "default"]),
                         st.lists(attempt, min_size=1, max_size=4)).map(list)

    def run_case(self, case):
        return H.run(self._run, case)

    async def _run(self, case):
        backend, urlcfg, attempts = case
        viol = []
        labels = ["backend:" + backend, "urls:" + urlcfg]
        auth_cfg = {"enabled": True, "actions": {"save": "w", "query": "r"}}
        global URL
        if urlcfg == "list":
            auth_cfg["relay_urls"] = list(URLS)
            url = "ws://relay.example:7777"
        else:
            url = "ws://localhost:6969"   # the built-in default when relay_urls is not configured
        cfg = {"authentication": auth_cfg, "service_privatekey": bootstrap.SERVICE_SK}
        async with H.Rig(backend, config=cfg) as rig:
            await rig.storage.set_auth_roles(E.PKS[0], "w")
            await rig.storage.set_auth_roles(E.PKS[1], "r")
            rig.pump()
            await rig.settle()
            rig.storage.authenticator.is_enabled = False
            await rig.add(E.make(3, 1, E.T0 - 5, [], "stored"))
            rig.storage.authenticator.is_enabled = True
            old = rig.conn("10.0.0.3")
            await rig.settle()
            closed_chal = old.frames()[0][1]
            await old.disconnect()
            other = rig.conn("10.0.0.2")
            await rig.settle()
            other_chal = other.frames()[0][1]
            c = rig.conn("10.0.0.1")
            await rig.settle()
            challenge = c.frames()[0][1]
            if len({challenge, other_chal, closed_chal}) != 3:
                viol.append(V("challenge-reused", "challenges are distinct per connection", got=[challenge, other_chal, closed_chal]))
            possible = {None}   # identities that may be in force
            nt = False
            n = 0
            had_success = False
            for step, (k, mut) in enumerate(attempts):
                saved_url = URL
                URL = url
                try:
                    payload, verdict = build(k, challenge, rig.clock.now, mut, other_chal, closed_chal)
                finally:
                    URL = saved_url
                if urlcfg == "default" and mut == "relay-second-url":
                    verdict = "mustnot"
                labels.append("verdict:" + verdict)
                if mut != "none":
                    nt = True
                await c.send(["AUTH", payload])
                if c.closed is not None or c.task.done():
                    labels.append("closed-by-relay")
                    if verdict == "must":
                        viol.append(V("valid-auth-closed-connection", "a valid answer authenticates", mut=mut, step=step))
                    break
                if verdict == "must":
                    possible = {k}
                    had_success = True
                elif verdict == "may":
                    possible = possible | {k}
                elif had_success:
                    nt = True
                # observe the identity: save needs A (index 0), query needs B (index 1)
                n += 1
                fr = [json.loads(x) for x in await c.send(["EVENT", E.make(2, 1, E.T0 + n, [], "probe%d" % n)])]
                can_save = any(f[0] == "OK" and f[2] is True for f in fr)
                fr = [json.loads(x) for x in await c.send(["REQ", "p%d" % n, {"kinds": [1]}])]
                can_query = any(f[0] == "EOSE" for f in fr)
                observed = 0 if can_save and not can_query else 1 if can_query and not can_save else None if not can_save and not can_query else "both"
                if observed not in possible:
                    sig = ("authenticated-without-valid-answer:%s" % mut) if verdict == "mustnot" else (
                        "valid-answer-not-authenticated:%s" % mut if verdict == "must" else "identity-inconsistent:%s" % mut)
                    viol.append(V(sig, "a connection's identity changes only through a fresh, correctly signed answer",
                                  step=step, attempt=[k, mut], verdict=verdict, observed=observed,
                                  possible=sorted(map(str, possible)), urls=urlcfg))
                    break
                possible = {observed}
            for x in (c, other):
                if not x.task.done():
                    await x.disconnect()
        return Result(viol, nt, labels)


class Challenges(Sub):
    name = "challenges"
    mode = "enumerate"
    shards = {"quick": 2, "thorough": 4}
    rule = ("20000 challenges from one Authenticator with identical remote_addr and a frozen clock: all distinct, "
            "32 lower-case hex; two fresh processes produce disjoint challenge sets; non-trivial = every challenge")

    def enumerate(self, tier):
        yield {"n": 20000, "kind": "distinct"}
        yield {"n": 50, "kind": "processes"}

    def run_case(self, case):
        return H.run(self._run, case)

    async def _run(self, case):
        from nostr_relay.auth import Authenticator

        viol = []
        if case["kind"] == "distinct":
            a = Authenticator(None, {"enabled": True})
            seen = set()
            for i in range(case["n"]):
                ch = a.get_challenge("10.0.0.1")
                if not (isinstance(ch, str) and len(ch) == 32 and all(x in "0123456789abcdef" for x in ch)):
                    viol.append(V("challenge-format", "a challenge is 128 bits of lower-case hex", challenge=ch))
                    break
                if ch in seen:
                    viol.append(V("challenge-repeated", "challenges are distinct per connection", challenge=ch, after=i))
                    break
                seen.add(ch)
            return Result(viol, True, [], evals=case["n"], nt_hashes=list(seen)[:5000])
        code = ("import sys; sys.path.insert(0, %r); import random; random.seed(1); "
                "from nostr_relay.auth import Authenticator; a = Authenticator(None, {'enabled': True}); "
                "print(' '.join(a.get_challenge('10.0.0.1') for _ in range(%d)))" % (bootstrap.REPO, case["n"]))
        outs = []
        for _ in range(2):
            p = subprocess.run([sys.executable, "-c", code], stdout=subprocess.PIPE, stderr=subprocess.PIPE,
                               env={"PYTHONHASHSEED": "0", "PATH": "/usr/bin:/bin", "PYTHONDONTWRITEBYTECODE": "1"}, timeout=120)
            if p.returncode != 0:
                raise H.HarnessError("challenge child failed: " + p.stderr.decode()[-300:])
            outs.append(set(p.stdout.decode().split()))
        if outs[0] & outs[1]:
            viol.append(V("challenge-predictable-across-processes", "challenges do not repeat across process restarts",
                          common=sorted(outs[0] & outs[1])[:3]))
        return Result(viol, True, [], evals=2 * case["n"], nt_hashes=sorted(outs[0] | outs[1]))


class Concurrent(Sub):
    """AUTH attempts of several connections overlapping in time (the role lookup awaits the database)"""

    name = "concurrent"
    examples = {"quick": 500, "thorough": 4000}
    shards = {"quick": 6, "thorough": 16}
    rule = ("2-3 connections send AUTH frames (valid for their own challenge, or claiming another identity with a bad "
            "signature / foreign challenge) back-to-back without settling; Authenticator.authenticate is observed through a "
            "wrapper: every token returned must carry the pubkey of the very event that was presented with that call, "
            "that event must satisfy the MUST conditions for that call's challenge, and the roles must be those stored "
            "for that pubkey; non-trivial = a valid and an invalid attempt overlap")

    def strategy(self, tier):
        att = st.tuples(st.integers(0, 2), st.integers(0, 2), st.sampled_from(["valid", "valid", "sig", "chal-other", "claim-other"]),
                        st.sampled_from([0, 0, 1, 3])).map(list)
        return st.tuples(st.sampled_from(["sql", "sql", "kv"]), st.lists(att, min_size=2, max_size=6)).map(list)

    def run_case(self, case):
        return H.run(self._run, case)

    async def _run(self, case):
        backend, attempts = case
        viol = []
        roles = {E.PKS[0]: "w", E.PKS[1]: "r", E.PKS[2]: "rw"}
        cfg = {"authentication": {"enabled": True, "relay_urls": [URLS[0]], "actions": {"save": "w", "query": "r"}},
               "service_privatekey": bootstrap.SERVICE_SK}
        async with H.Rig(backend, config=cfg, file_db=True if backend == "sql" else None) as rig:
            for pk, r in roles.items():
                await rig.storage.set_auth_roles(pk, r)
            rig.pump()
            await rig.settle()
            conns = [rig.conn("10.0.0.%d" % (i + 1)) for i in range(3)]
            await rig.settle()
            chals = [c.frames()[0][1] for c in conns]
            log = []
            auth = rig.storage.authenticator
            real = auth.authenticate

            async def spy(payload, challenge=""):
                try:
                    token = await real(payload, challenge=challenge)
                except BaseException as e:
                    log.append((payload, challenge, None, type(e).__name__))
                    raise
                log.append((payload, challenge, dict(token), None))
                return token

            auth.authenticate = spy
            kinds = set()
            for ci, k, how, turns in attempts:
                tags = [["relay", URLS[0]], ["challenge", chals[ci]]]
                if how == "chal-other":
                    tags[1][1] = chals[(ci + 1) % 3]
                ev = E.make(k, 22242, int(rig.clock.now), tags, "")
                if how == "sig":
                    ev["sig"] = E.sign_id((k + 1) % 3, ev["id"])
                elif how == "claim-other":
                    ev["pubkey"] = E.PKS[(k + 1) % 3]   # claims somebody else, signature does not fit
                kinds.add("valid" if how == "valid" else "invalid")
                conns[ci].feed(["AUTH", ev], turns)
            await rig.settle()
            auth.authenticate = real
            for payload, challenge, token, exc in log:
                if token is None:
                    continue
                ok, why = E.authentic(payload) if isinstance(payload, dict) else (False, "not an object")
                tagv = {t[0]: t[1] for t in payload.get("tags", []) if isinstance(t, list) and len(t) > 1} if isinstance(payload, dict) else {}
                if not ok or tagv.get("challenge") != challenge or tagv.get("relay") != URLS[0]:
                    viol.append(V("concurrent-authenticated-without-valid-answer", "only a correctly signed answer to this connection's challenge authenticates",
                                  why=why, challenge_ok=tagv.get("challenge") == challenge))
                elif token.get("pubkey") != payload["pubkey"]:
                    viol.append(V("token-identity-differs-from-presented-event", "the identity obtained is the one that signed the presented answer",
                                  token_pubkey=str(token.get("pubkey"))[:8], event_pubkey=payload["pubkey"][:8]))
                elif set(token.get("roles", ())) != set(roles[payload["pubkey"]]):
                    viol.append(V("token-roles-differ", "the token carries the roles stored for its pubkey",
                                  roles=sorted(token.get("roles", ())), want=sorted(roles[payload["pubkey"]])))
                if viol:
                    break
            for c in conns:
                if not c.task.done():
                    await c.disconnect()
        return Result(viol, kinds == {"valid", "invalid"}, ["backend:" + backend])


class AsgiHeaders(Sub):
    """through the whole ASGI application: nothing a client puts into its HTTP headers widens what the relay answers to"""

    name = "asgi-headers"
    examples = {"quick": 60, "thorough": 480}
    shards = {"quick": 6, "thorough": 12}
    rule = ("create_app + falcon's ASGI conductor, authentication on with relay_urls = [ws://relay.example:7777]; 0..2 earlier "
            "websocket connections arrive with hostile Host / X-Forwarded-Host / Origin headers naming another relay and leave; "
            "then a connection answers its challenge with a relay tag equal to that other name (must not authenticate) or "
            "to the configured URL (must); identity observed through what the connection may do; non-trivial = a hostile "
            "connection came first and the answer names its host")

    def strategy(self, tier):
        hdr = st.sampled_from(["host", "x-forwarded-host", "origin", "x-forwarded-proto+host"])
        return st.tuples(st.sampled_from(["kv", "sql"]), st.lists(hdr, max_size=2), st.sampled_from(["evil", "evil", "right"]),
                         st.booleans()).map(list)

    def run_case(self, case):
        return H.run(self._run, case)

    async def _run(self, case):
        import falcon.testing
        from nostr_relay import web
        from props.c19 import AsgiStack

        backend, earlier, which, same_conn_headers = case
        viol = []
        evil = "relay.evil.example"
        drain = AsgiStack()._drain
        auth_cfg = {"enabled": True, "actions": {"save": "w", "query": "r"}, "relay_urls": [URL]}
        cfg = {"authentication": auth_cfg, "service_privatekey": bootstrap.SERVICE_SK, "message_timeout": 10**14}

        def headers(kind):
            if kind == "host":
                return {"host": evil}
            if kind == "x-forwarded-host":
                return {"x-forwarded-host": evil}
            if kind == "origin":
                return {"origin": "https://" + evil}
            return {"x-forwarded-proto": "wss", "host": evil, "x-forwarded-host": evil}

        async def texts(ws):
            out = []
            for e in list(ws._collected_server_events):
                if e.get("text"):
                    out.append(json.loads(e["text"]))
            return out

        async with H.Rig(backend, config=cfg, file_db=True if backend == "sql" else None) as rig:
            await rig.storage.set_auth_roles(E.PKS[0], "w")
            rig.pump()
            await rig.settle()
            app = web.create_app(storage=rig.storage)
            cond = falcon.testing.ASGIConductor(app)
            for kind in earlier:
                async with cond.simulate_ws("/", headers=headers(kind)) as ws0:
                    await drain(ws0)
                    await ws0.close()
                await rig.settle()
            hd = headers(earlier[0]) if (same_conn_headers and earlier) else None
            async with cond.simulate_ws("/", headers=hd) as ws:
                await drain(ws)
                fr = await texts(ws)
                challenge = next((f[1] for f in fr if f[0] == "AUTH"), None)
                if challenge is None:
                    raise H.HarnessError("no challenge over the ASGI stack")
                relay = URL if which == "right" else "ws://" + evil
                ans = E.make(0, 22242, int(rig.clock.now), [["relay", relay], ["challenge", challenge]], "")
                await ws.send_text(json.dumps(["AUTH", ans]))
                await drain(ws)
                ws._collected_server_events.clear()
                await ws.send_text(json.dumps(["EVENT", E.make(2, 1, E.T0 + 1, [], "probe")]))
                await drain(ws)
                fr = await texts(ws)
                can_save = any(f[0] == "OK" and f[2] is True for f in fr)
                if which == "right" and not can_save:
                    viol.append(V("valid-answer-not-authenticated:asgi", "a valid answer authenticates", frames=fr[:3]))
                if which == "evil" and can_save:
                    viol.append(V("authenticated-without-valid-answer:relay-from-headers",
                                  "the relay tag must name one of the configured relay URLs, whatever the HTTP headers say",
                                  earlier=earlier, relay_tag=relay, own_headers=bool(hd)))
                if not ws.closed:
                    await ws.close()
            await rig.settle()
        return Result(viol, bool(earlier) and which == "evil", ["backend:" + backend, "answer:" + which])


SUBCHECKS = [Auth(), Challenges(), Concurrent(), AsgiHeaders()]
