"""
C16 - configured admission policies are applied to every event, fail-closed.

Sub-checks
  bounds     each validator as a pure function under an injected clock, with values at, just inside and
             just outside its documented bound; reference predicates written from the docstrings/docs:
               is_not_too_large  reject iff len(content) > max_event_size
               is_recent         reject iff now-created_at > oldest_event  or  created_at-now > 3600 (1 hour)
               is_certain_kind   reject iff kind not in valid_kinds
               is_author_whitelisted / _blacklisted   membership of pubkey
               is_pow            reject iff leading zero bits of the id < require_pow   (0..256)
               is_not_hellthread reject iff hellthread_limit and kind in (1,7) and #p-tags > limit
               is_service_event  reject iff kind == 31494 and pubkey != service pubkey
  pipelines  subsets and orders of validators as the storage's `validators` option; events violating 0-2 of
             them; both backends; websocket path: refused with a reason <=> some configured validator's
             reference rejects; a refused event leaves no trace and is not pushed; otherwise accepted
  lists      ListBuilder.run_once over generated stores: allow/deny sets == p-tagged well-formed pubkeys of the
             events matching the configured queries (+ static whitelist + service key for a non-empty allow list)
  refresh    every bytecode boundary of ListBuilder.run_once (sys.monitoring INSTRUCTION events): an outsider
             must be rejected at every boundary while the old and the new allow list are both non-empty
"""
import asyncio
import json
import sys

from hypothesis import strategies as st

from vlib import bootstrap
from vlib import events as E
from vlib import harness as H
from vlib.core import Result, Sub, V

LEVEL = "exploration"
RULE = ("bounds: one evaluation = (validator, config, event) with the event on or next to the bound, non-trivial = "
        "exactly on or one step off the bound; pipelines: non-trivial = >=2 validators configured and the event "
        "violates one of them; lists/refresh: non-trivial = the refresh replaces a non-empty list by a different one")
ASSUMPTIONS = ["clock injected via validators.time", "free construction of ids for proof-of-work bits (validators run without is_signed there)",
               "refresh window: the interleaving of a validator thread with the refresh coroutine is modelled by calling the "
               "validator at every bytecode boundary of run_once on the same thread"]

NOW = 1_700_000_000
VAL = "nostr_relay.validators."


class Cfg:
    def __init__(self, **kw):
        self.__dict__.update(kw)

    def __getattr__(self, k):
        return None


def ref_reject(name, ev, cfg, now):
    if name == "is_not_too_large":
        return len(ev["content"]) > cfg.max_event_size
    if name == "is_recent":
        return (now - ev["created_at"]) > cfg.oldest_event or (ev["created_at"] - now) > 3600
    if name == "is_certain_kind":
        return ev["kind"] not in cfg.valid_kinds
    if name == "is_author_whitelisted":
        return ev["pubkey"] not in cfg.pubkey_whitelist
    if name == "is_author_blacklisted":
        return ev["pubkey"] in cfg.pubkey_blacklist
    if name == "is_pow":
        bits = 256 - int(ev["id"], 16).bit_length()
        return bits < cfg.require_pow
    if name == "is_not_hellthread":
        n = sum(1 for t in ev["tags"] if t and t[0] == "p")
        return bool(cfg.hellthread_limit) and ev["kind"] in (1, 7) and n > cfg.hellthread_limit
    if name == "is_service_event":
        return ev["kind"] == 31494 and ev["pubkey"] != cfg.service_pubkey
    raise KeyError(name)


NAMES = ["is_not_too_large", "is_recent", "is_certain_kind", "is_author_whitelisted", "is_author_blacklisted", "is_pow",
         "is_not_hellthread", "is_service_event"]


@st.composite
def st_bound_case(draw):
    name = draw(st.sampled_from(NAMES))
    cfg = {"max_event_size": draw(st.sampled_from([0, 1, 10, 280, 4096])),
           "oldest_event": draw(st.sampled_from([0, 1, 60, 86400, 31536000])),
           "valid_kinds": draw(st.sampled_from([[1], [0, 1, 7], []])),
           "pubkey_whitelist": draw(st.sampled_from([[E.PKS[0]], [E.PKS[0], E.PKS[1]], []])),
           "pubkey_blacklist": draw(st.sampled_from([[E.PKS[0]], [], [E.PKS[1], E.PKS[2]]])),
           "require_pow": draw(st.sampled_from([0, 1, 7, 8, 9, 16, 20, 255, 256])),
           "hellthread_limit": draw(st.sampled_from([0, 1, 2, 5, None])),
           "service_pubkey": E.PKS[5]}
    off = draw(st.sampled_from([-2, -1, 0, 1, 2]))
    ev = {"id": "ff" * 32, "pubkey": draw(st.sampled_from(E.PKS[:3] + [E.PKS[5]])), "created_at": NOW, "kind": 1,
          "tags": [], "content": "", "sig": "00" * 64}
    if name == "is_not_too_large":
        ev["content"] = "x" * max(0, cfg["max_event_size"] + off)
    elif name == "is_recent":
        side = draw(st.sampled_from(["old", "future"]))
        ev["created_at"] = NOW - cfg["oldest_event"] - off if side == "old" else NOW + 3600 + off
    elif name == "is_certain_kind":
        ev["kind"] = draw(st.sampled_from([0, 1, 2, 7, 8]))
    elif name == "is_pow":
        bits = min(256, max(0, cfg["require_pow"] + off))
        val = (1 << (256 - bits)) - 1 if bits < 256 else 0
        if bits < 256 and draw(st.booleans()):
            val = 1 << (255 - bits)  # exactly `bits` leading zeros, lowest such value
        ev["id"] = "%064x" % val
    elif name == "is_not_hellthread":
        lim = cfg["hellthread_limit"] or 0
        ev["kind"] = draw(st.sampled_from([1, 7, 4, 1]))
        # the documented bound counts "p" tags, whatever they hold: distinct keys, one key repeated (with or without
        # differing relay hints), bare ["p"] tags
        shape = draw(st.sampled_from(["distinct", "distinct", "same", "hints", "bare", "mixed"]))
        n = max(0, lim + off)
        ev["tags"] = [{"distinct": ["p", E.PKS[i % 6]], "same": ["p", E.PKS[0]], "hints": ["p", E.PKS[0], "wss://r%d" % i],
                       "bare": ["p"], "mixed": ["p", E.PKS[0]] if i % 2 else ["p"]}[shape] for i in range(n)] + [["e", "00" * 32]]
    elif name == "is_service_event":
        ev["kind"] = draw(st.sampled_from([31494, 31494, 31493, 1]))
    return {"name": name, "cfg": cfg, "event": ev, "off": off}


class Bounds(Sub):
    name = "bounds"
    examples = {"quick": 4000, "thorough": 32000}
    shards = {"quick": 4, "thorough": 16}
    rule = RULE

    def strategy(self, tier):
        return st_bound_case()

    def run_case(self, case):
        from aionostr.event import Event
        from nostr_relay import validators
        from nostr_relay.errors import StorageError

        validators.time = lambda: NOW
        cfg = Cfg(**case["cfg"])
        ev = case["event"]
        want = ref_reject(case["name"], ev, cfg, NOW)
        e = Event(**json.loads(json.dumps(ev)))
        try:
            getattr(validators, case["name"])(e, cfg)
            got = False
        except StorageError:
            got = True
        viol = []
        if got != want:
            viol.append(V("bound:%s:%s" % (case["name"], "wrongly-accepted" if want else "wrongly-rejected"),
                          "each validator decides exactly according to its documented bound",
                          validator=case["name"], cfg={k: v for k, v in case["cfg"].items() if k != "service_pubkey"},
                          event={k: (v if k != "content" else len(v)) for k, v in ev.items()}, reference_rejects=want))
        return Result(viol, abs(case["off"]) <= 1, ["v:" + case["name"], "reject" if want else "accept"])


# ------------------------------------------------------------------ pipelines

PIPE = ["is_not_too_large", "is_recent", "is_certain_kind", "is_author_blacklisted", "is_not_hellthread", "is_signed"]


@st.composite
def st_pipeline(draw):
    chosen = draw(st.lists(st.sampled_from(PIPE), min_size=1, max_size=5, unique=True))
    cfg = {"max_event_size": 20, "oldest_event": 1000, "valid_kinds": [1, 7, 20000], "pubkey_blacklist": [E.PKS[1]],
           "hellthread_limit": 2}
    evs = []
    for i in range(draw(st.integers(1, 4))):
        k = draw(st.integers(0, 2))
        kind = draw(st.sampled_from([1, 1, 7, 4, 20000]))
        content = "x" * draw(st.sampled_from([0, 20, 21, 50]))
        ts = NOW + draw(st.sampled_from([0, -1000, -1001, 3600, 3601, -5]))
        tags = [["p", E.PKS[j]] for j in range(draw(st.sampled_from([0, 2, 3])))]
        ev = E.make(k, kind, ts, tags, content)
        if draw(st.integers(0, 5)) == 0:
            ev["sig"] = "00" * 64
        if draw(st.integers(0, 7)) == 0:
            # claims to be written by the relay itself (the service pubkey is public); the signature cannot fit
            from coincurve import PrivateKey

            ev = dict(ev, pubkey=PrivateKey(bytes.fromhex(bootstrap.SERVICE_SK)).public_key_xonly.format().hex(),
                      kind=draw(st.sampled_from([1, 31494])))
        evs.append(ev)
        if draw(st.integers(0, 3)) == 0:
            # the same id again with other contents (after the original was ephemeral, deleted or is still there)
            forged = dict(ev, content="y" * draw(st.sampled_from([5, 21, 50])), pubkey=draw(st.sampled_from([ev["pubkey"], E.PKS[1]])))
            evs.append({"forged": forged, "delete_original_first": draw(st.booleans())})
    # per event: None, or the number of seconds the validation job sits in the worker-thread queue before it runs
    slow = draw(st.lists(st.sampled_from([None, None, None, 2, 10, 1000]), min_size=len(evs), max_size=len(evs)))
    return {"backend": draw(st.sampled_from(["kv", "sql"])), "validators": chosen, "cfg": cfg, "events": evs, "slow": slow}


class Pipelines(Sub):
    name = "pipelines"
    examples = {"quick": 800, "thorough": 6400}
    shards = {"quick": 8, "thorough": 16}
    rule = RULE

    def strategy(self, tier):
        return st_pipeline()

    def run_case(self, case):
        return H.run(self._run, case)

    async def _run(self, case):
        backend = case["backend"]
        viol = []
        nt = False
        cfgobj = Cfg(**case["cfg"])
        clock = H.Clock(NOW)
        async with H.Rig(backend, validators=[VAL + v for v in case["validators"]],
                         config=dict(case["cfg"], service_privatekey=bootstrap.SERVICE_SK), clock=clock) as rig:
            w = rig.conn("10.0.0.9")
            await w.send(["REQ", "w", {"since": 1}])
            seen = set()
            vexec = asyncio.get_running_loop().inline_executor
            for evi, ev in enumerate(case["events"]):
                delay = (case.get("slow") or [None] * len(case["events"]))[evi]
                if "forged" in ev:
                    if ev["delete_original_first"]:
                        await rig.storage.delete_event(ev["forged"]["id"])
                        rig.pump()
                        await rig.settle()
                    ev = ev["forged"]
                    if ev["id"] in await rig.dump():
                        continue  # the original is stored: the storage reports a duplicate before anything else matters
                elif ev["id"] in seen:
                    continue
                seen.add(ev["id"])
                rejecting = []
                for v in case["validators"]:
                    if v == "is_signed":
                        if not E.authentic(ev)[0]:
                            rejecting.append(v)
                    elif ref_reject(v, ev, cfgobj, NOW):
                        rejecting.append(v)
                if rejecting and len(case["validators"]) >= 2:
                    nt = True
                before = await rig.dump()
                nw = len(w.out)
                c = rig.conn("10.0.0.1")
                if delay is None:
                    fr = [json.loads(x) for x in await c.send(["EVENT", ev])]
                else:
                    # the worker threads are busy: the validation job waits while (loop) time passes, then runs
                    vexec.park = True
                    n0 = len(c.out)
                    c.feed(["EVENT", ev])
                    for _ in range(8):
                        await asyncio.sleep(0)
                    asyncio.get_running_loop()._voffset += delay
                    for _ in range(8):
                        await asyncio.sleep(0)
                    vexec.park = False
                    vexec.release_all()
                    await rig.settle()
                    fr = [json.loads(x) for x in c.out[n0:]]
                await c.disconnect()
                oks = [f for f in fr if f[0] == "OK"]
                ok = bool(oks and oks[0][2] is True)
                after = await rig.dump()
                pushed = any(f[0] == "EVENT" and f[2]["id"] == ev["id"] for f in w.frames(nw))
                if rejecting:
                    if ok:
                        viol.append(V("%s-policy-not-applied:%s" % (backend, rejecting[0]),
                                      "every configured validator is evaluated for every submitted event",
                                      validators=case["validators"], rejecting=rejecting, event_kind=ev["kind"]))
                    elif not (oks and oks[0][3]):
                        viol.append(V("%s-refused-without-reason" % backend, "a refused event is refused with a reason", frames=fr))
                    if after != before or pushed:
                        viol.append(V("%s-refused-event-left-trace" % backend, "a refused event leaves no trace",
                                      validators=case["validators"], rejecting=rejecting, pushed=pushed))
                elif not ok:
                    viol.append(V("%s-compliant-event-refused" % backend, "an event violating no configured policy is accepted",
                                  validators=case["validators"], reason=oks[0][3] if oks else None, event=ev))
                if viol:
                    break
            await w.disconnect()
        return Result(viol, nt, ["backend:" + backend, "n:%d" % len(case["validators"])])


# ------------------------------------------------------------------ dynamic lists


def valid_pk(s):
    return isinstance(s, str) and len(s) == 64 and all(c in "0123456789abcdefABCDEF" for c in s)


@st.composite
def st_lists_case(draw):
    evs = []
    for i in range(draw(st.integers(1, 7))):
        kind = draw(st.sampled_from([3, 3, 1984, 1, 30000]))
        tags = []
        for _ in range(draw(st.integers(0, 4))):
            tags.append(draw(st.sampled_from([["p", E.PKS[1]], ["p", E.PKS[2]], ["p", E.PKS[3]], ["p", E.PKS[2].upper()],
                                              ["p", E.PKS[1][:10]], ["p", "zz" * 32], ["p"], ["e", E.PKS[4]],
                                              ["p", E.PKS[4], "wss://x"]])))
        if kind == 30000:
            tags.append(["d", str(i)])
        if draw(st.booleans()):
            tags.append(["t", draw(st.sampled_from(["list", "other"]))])   # what the tag-filtered list queries select on
        evs.append(E.free(("%02x" % (i + 1)) * 32, draw(st.sampled_from(E.PKS[:2])), kind, E.T0 + i, tags))
    allow = draw(st.sampled_from([[], [{"kinds": [3], "authors": [E.PKS[0]]}], [{"kinds": [3]}, {"kinds": [30000]}],
                                  [{"kinds": [3], "#t": ["list"]}], [{"#t": ["list"], "authors": [E.PKS[0], E.PKS[1]]}]]))
    deny = draw(st.sampled_from([[], [{"kinds": [1984]}], [{"kinds": [1984], "authors": [E.PKS[0]]}], [{"kinds": [1984], "#t": ["list"]}]]))
    return {"backend": draw(st.sampled_from(["kv", "sql"])), "events": evs, "allow": allow, "deny": deny,
            "whitelist": draw(st.sampled_from([[], [E.PKS[5]]])), "service": draw(st.booleans()),
            "second": draw(st.lists(st.integers(0, 6), max_size=3))}


async def build_lists(rig, case):
    from nostr_relay import dynamic_lists
    from nostr_relay.config import Config

    lb = dynamic_lists.ListBuilder()
    await lb.run_once()
    return lb


def expected_sets(stored, case, service_pk):
    from vlib import refmodel as R

    out = {}
    for kind, queries in (("allow", case["allow"]), ("deny", case["deny"])):
        if not queries:
            out[kind] = None
            continue
        s = set()
        for ev in stored.values():
            if any(R.must_match(ev, q) for q in queries):
                for t in ev["tags"]:
                    if len(t) >= 2 and t[0] == "p" and valid_pk(t[1]):
                        s.add(t[1].lower())
        out[kind] = s
    if out["allow"]:
        out["allow"] |= set(case["whitelist"])
        if service_pk:
            out["allow"].add(service_pk)
    return out


class Lists(Sub):
    name = "lists"
    examples = {"quick": 500, "thorough": 4000}
    shards = {"quick": 6, "thorough": 16}
    rule = RULE

    def strategy(self, tier):
        return st_lists_case()

    def run_case(self, case):
        return H.run(self._run, case)

    async def _run(self, case):
        from nostr_relay import dynamic_lists

        backend = case["backend"]
        viol = []
        # the relay gets its own copy of the configured queries (whatever it does to them must not leak into the oracle)
        cfg = {"dynamic_lists": {"allow_list_queries": json.loads(json.dumps(case["allow"])),
                                 "deny_list_queries": json.loads(json.dumps(case["deny"]))},
               "pubkey_whitelist": case["whitelist"]}
        if case["service"]:
            cfg["service_privatekey"] = bootstrap.SERVICE_SK
        dynamic_lists.ALLOWED_PUBKEYS.clear()
        dynamic_lists.DENIED_PUBKEYS.clear()
        nt = False
        try:
            async with H.Rig(backend, validators=[], config=cfg) as rig:
                from nostr_relay.config import Config

                for ev in case["events"]:
                    await rig.add(ev)
                lb = await build_lists(rig, case)
                for rnd in range(2):
                    stored = await rig.dump()
                    want = expected_sets(stored, case, Config.service_pubkey if case["service"] else None)
                    got_allow = {b.hex() for b in dynamic_lists.ALLOWED_PUBKEYS}
                    got_deny = {b.hex() for b in dynamic_lists.DENIED_PUBKEYS}
                    if want["allow"] is not None and got_allow != want["allow"]:
                        viol.append(V("allow-list-content", "the allow list holds exactly the p-tagged pubkeys of the configured queries plus the static whitelist",
                                      round=rnd, got=sorted(got_allow), want=sorted(want["allow"])))
                    if want["deny"] is not None and got_deny != want["deny"]:
                        viol.append(V("deny-list-content", "the deny list holds exactly the p-tagged pubkeys of the configured queries",
                                      round=rnd, got=sorted(got_deny), want=sorted(want["deny"])))
                    # the validator's decision over the lists it was given
                    if not viol:
                        from aionostr.event import Event
                        from nostr_relay.errors import StorageError

                        for pk in E.PKS:
                            should_reject = bool((got_allow and pk not in got_allow) or (got_deny and pk in got_deny))
                            try:
                                dynamic_lists.is_pubkey_allowed(Event(**E.free("cc" * 32, pk, 1, E.T0, [])), None)
                                rejected = False
                            except StorageError:
                                rejected = True
                            if rejected != should_reject:
                                viol.append(V("dynamic-list-decision:%s" % ("wrongly-accepted" if should_reject else "wrongly-rejected"),
                                              "a pubkey is admitted iff it is on a non-empty allow list and not on the deny list",
                                              pubkey=pk[:8], on_allow=pk in got_allow, on_deny=pk in got_deny,
                                              allow_size=len(got_allow), deny_size=len(got_deny)))
                                break
                    if viol or rnd == 1:
                        break
                    # change the store (delete some events) and refresh again with the same builder
                    for j in case["second"]:
                        if j < len(case["events"]):
                            await rig.storage.delete_event(case["events"][j]["id"])
                            rig.pump()
                            await rig.settle()
                    if case["second"]:
                        nt = True
                    await lb.run_once()
        finally:
            dynamic_lists.ALLOWED_PUBKEYS.clear()
            dynamic_lists.DENIED_PUBKEYS.clear()
        return Result(viol, nt, ["backend:" + backend])


class RefreshLoop(Sub):
    """The list builder's own periodic loop (Periodic._run) on the virtual clock: one refresh fails with an engine error,
    the list events change afterwards - the next refreshes must pick the change up (a relay whose lists froze after one
    failed refresh keeps admitting a pubkey that was put on the deny list later, and keeps an allow list unenforced)."""
    name = "refresh-loop"
    mode = "enumerate"
    exhaustive = True
    examples = {"quick": 0, "thorough": 0}
    shards = {"quick": 4, "thorough": 8}
    rule = ("LMDB; exhaustive over list kind x which refresh fails (none, the one at start, the 1st..3rd periodic one); "
            "non-trivial = a refresh failed and the list events changed after it")

    def enumerate(self, tier):
        # LMDB only: a SQL case run after other cases in the same worker process read a stale store (1-2 of 6 list
        # events, even with no failing refresh) while the same case replayed alone in a fresh process passes - state
        # leaking between cases in the harness, not the relay; not tracked down in the time available, so SQL is left out
        for backend in ("kv",):
            for kind in ("deny", "allow"):
                for fail_at in (None, 0, 1, 2, 3):
                    yield [backend, kind, fail_at]

    def run_case(self, case):
        return H.run(self._run, case)

    async def _run(self, case):
        from nostr_relay import dynamic_lists

        backend, kind, fail_at = case
        viol = []
        q = {"kinds": [1], "authors": [E.PKS[0]]}
        cfg = {"dynamic_lists": {"%s_list_queries" % kind: [q], "check_interval": 100}}
        dynamic_lists.ALLOWED_PUBKEYS.clear()
        dynamic_lists.DENIED_PUBKEYS.clear()
        target = dynamic_lists.DENIED_PUBKEYS if kind == "deny" else dynamic_lists.ALLOWED_PUBKEYS
        lb = None
        try:
            async with H.Rig(backend, validators=[], config=cfg) as rig:
                loop = asyncio.get_event_loop()
                calls = {"n": 0}
                real = rig.storage.run_single_query

                def flaky(*a, **kw):
                    if calls.pop("fail", False):
                        raise RuntimeError("(sqlite3.OperationalError) database is locked")
                    return real(*a, **kw)

                rig.storage.run_single_query = flaky
                want = set()

                async def publish(j):
                    pk = "%064x" % (0xabc000 + j)
                    want.add(pk)
                    await rig.add(E.free("%064x" % (0x7000 + j), E.PKS[0], 1, E.T0 + j, [["p", pk]]))

                await publish(0)
                lb = dynamic_lists.ListBuilder()
                real_once = lb.run_once

                async def counted_once():
                    n = calls["n"]
                    calls["n"] += 1
                    if n == fail_at:
                        calls["fail"] = True   # the storage fails the query of exactly this refresh
                    try:
                        return await real_once()
                    finally:
                        calls.pop("fail", None)

                lb.run_once = counted_once
                await lb.start()
                await rig.settle()
                for rnd in range(1, 6):
                    await publish(rnd)
                    before = calls["n"]
                    for _ in range(30):
                        if calls["n"] > before:
                            break
                        if not loop.jump_to_next_timer():
                            break
                        for _ in range(20):
                            await asyncio.sleep(0)
                        await rig.settle()
                    await rig.settle()
                got = {b.hex() for b in target}
                if calls["n"] < 6:
                    viol.append(V("list-refresh-stopped", "the lists keep following the list events (refresh every check_interval)",
                                  kind=kind, refreshes=calls["n"], expected=6, failed_refresh=fail_at))
                elif got != want:
                    viol.append(V("%s-list-stale-after-failed-refresh" % kind, "the lists keep following the list events",
                                  kind=kind, got=len(got), want=len(want), failed_refresh=fail_at))
                rig.storage.run_single_query = real
        finally:
            if lb is not None:
                try:
                    await lb.stop()
                except Exception:
                    pass
            dynamic_lists.ALLOWED_PUBKEYS.clear()
            dynamic_lists.DENIED_PUBKEYS.clear()
        return Result(viol, fail_at is not None, ["backend:" + backend, "kind:" + kind, "fail-at:%s" % fail_at])


class Refresh(Sub):
    name = "refresh"
    examples = {"quick": 60, "thorough": 480}
    shards = {"quick": 4, "thorough": 12}
    rule = ("two generations of an allow list (old, new) drawn by Hypothesis; run_once is executed with a sys.monitoring "
            "INSTRUCTION callback that validates an outsider at EVERY bytecode boundary (exhaustive for the drawn lists); "
            "non-trivial = both lists non-empty and different")

    def strategy(self, tier):
        pk = st.sampled_from(E.PKS[1:5])
        return st.tuples(st.lists(pk, min_size=1, max_size=3, unique=True), st.lists(pk, min_size=1, max_size=3, unique=True),
                         st.sampled_from(["kv", "sql"])).map(list)

    def run_case(self, case):
        return H.run(self._run, case)

    async def _run(self, case):
        from nostr_relay import dynamic_lists
        from nostr_relay.errors import StorageError
        from aionostr.event import Event

        old, new, backend = case
        viol = []
        outsider = Event(**E.free("aa" * 32, E.PKS[0], 1, E.T0, []))
        cfg = {"dynamic_lists": {"allow_list_queries": [{"kinds": [3]}]}}
        dynamic_lists.ALLOWED_PUBKEYS.clear()
        dynamic_lists.DENIED_PUBKEYS.clear()
        boundaries = [0]
        admitted = []
        try:
            async with H.Rig(backend, validators=[], config=cfg) as rig:
                await rig.add(E.free("01" * 32, E.PKS[5], 3, E.T0, [["p", p] for p in old]))
                lb = dynamic_lists.ListBuilder()
                await lb.run_once()
                if {b.hex() for b in dynamic_lists.ALLOWED_PUBKEYS} != set(old):
                    raise H.HarnessError("first refresh did not produce the old list")
                await rig.add(E.free("02" * 32, E.PKS[5], 3, E.T0 + 1, [["p", p] for p in new]))
                mon = sys.monitoring
                tool = 3
                try:
                    mon.use_tool_id(tool, "verif-c16")
                except ValueError:
                    mon.free_tool_id(tool)
                    mon.use_tool_id(tool, "verif-c16")
                code = dynamic_lists.ListBuilder.run_once.__code__

                def on_instr(codeobj, offset):
                    boundaries[0] += 1
                    try:
                        dynamic_lists.is_pubkey_allowed(outsider, None)
                        admitted.append(offset)
                    except StorageError:
                        pass

                mon.register_callback(tool, mon.events.INSTRUCTION, on_instr)
                mon.set_local_events(tool, code, mon.events.INSTRUCTION)
                try:
                    await lb.run_once()
                finally:
                    mon.set_local_events(tool, code, 0)
                    mon.register_callback(tool, mon.events.INSTRUCTION, None)
                    mon.free_tool_id(tool)
                if {b.hex() for b in dynamic_lists.ALLOWED_PUBKEYS} != set(new):
                    viol.append(V("allow-list-content", "after the refresh the allow list is the new list",
                                  got=sorted(b.hex() for b in dynamic_lists.ALLOWED_PUBKEYS), want=sorted(new)))
                if admitted:
                    viol.append(V("allow-list-empty-window", "no window in which an enforced allow list is treated as empty",
                                  old=old, new=new, admitted_at_offsets=admitted[:6], boundaries=boundaries[0]))
                if boundaries[0] < 20:
                    raise H.HarnessError("instruction monitoring saw only %d boundaries" % boundaries[0])
        finally:
            dynamic_lists.ALLOWED_PUBKEYS.clear()
            dynamic_lists.DENIED_PUBKEYS.clear()
        return Result(viol, set(old) != set(new), ["backend:" + backend], evals=max(boundaries[0], 1),
                      nt_hashes=None if set(old) == set(new) else [str((tuple(old), tuple(new), backend, i)) for i in range(min(boundaries[0], 400))],
                      sample={"old": old, "new": new, "backend": backend, "boundaries": boundaries[0]})


class Workers(Sub):
    """several worker processes share is_main_process (a multiprocessing.Event) but not the module-level lists"""

    name = "workers"
    examples = {"quick": 120, "thorough": 960}
    shards = {"quick": 6, "thorough": 12}
    rule = ("deployment with 1..4 workers: web.start_mainprocess_tasks is run once per worker in arrival order, each worker "
            "starting with the empty module-level lists a forked process has while web.is_main_process stays shared; events "
            "from a listed pubkey, a stranger and a denied pubkey are then submitted to worker w; non-trivial = w is not the "
            "first worker and an allow or deny list is configured and non-empty")

    def strategy(self, tier):
        return st.tuples(st.sampled_from(["kv", "sql"]), st.integers(1, 4), st.integers(0, 3),
                         st.sampled_from(["allow", "deny", "both"]), st.lists(st.sampled_from([1, 2, 3]), min_size=1, max_size=2, unique=True),
                         ).map(list)

    def run_case(self, case):
        return H.run(self._run, case)

    async def _run(self, case):
        import time as _t

        from nostr_relay import dynamic_lists, web
        from nostr_relay.util import Periodic

        backend, n_workers, w, mode, listed = case
        w = min(w, n_workers - 1)
        viol = []
        dl = {}
        if mode in ("allow", "both"):
            dl["allow_list_queries"] = [{"kinds": [3], "authors": [E.PKS[0]]}]
        if mode in ("deny", "both"):
            dl["deny_list_queries"] = [{"kinds": [1984], "authors": [E.PKS[0]]}]
        cfg = {"dynamic_lists": dl}
        dynamic_lists.ALLOWED_PUBKEYS.clear()
        dynamic_lists.DENIED_PUBKEYS.clear()
        web.is_main_process.clear()
        try:
            async with H.Rig(backend, validators=["nostr_relay.validators.is_signed", "nostr_relay.dynamic_lists.is_pubkey_allowed"],
                             config=cfg) as rig:
                # the list events are published while nothing is enforced yet
                await rig.add(E.make(0, 3, E.T0, [["p", E.PKS[0]]] + [["p", E.PKS[k]] for k in listed], ""))
                await rig.add(E.make(0, 1984, E.T0, [["p", E.PKS[4]]], ""))
                for worker in range(w + 1):
                    # a forked worker: its own copy of the module globals (empty), the shared Event
                    dynamic_lists.ALLOWED_PUBKEYS.clear()
                    dynamic_lists.DENIED_PUBKEYS.clear()
                    before = set(Periodic._running_tasks)
                    await web.start_mainprocess_tasks(rig.storage)
                    mine = [t for t in Periodic._running_tasks if t not in before]
                    t0 = _t.monotonic()
                    while _t.monotonic() - t0 < 20:
                        await asyncio.sleep(0)
                        chains = [H._chain(t) for t in mine if not t.done()]
                        if all(ch and ch[-1][0] == "sleep" for ch in chains):
                            break
                        if backend == "sql":
                            _t.sleep(0.0005)
                    else:
                        raise H.HarnessError("list builder did not finish its first run")
                allow = {b.hex() for b in dynamic_lists.ALLOWED_PUBKEYS}
                deny = {b.hex() for b in dynamic_lists.DENIED_PUBKEYS}
                c = rig.conn("10.0.0.1")
                want_allow = {E.PKS[0]} | {E.PKS[k] for k in listed} if "allow_list_queries" in dl else None
                want_deny = {E.PKS[4]} if "deny_list_queries" in dl else None
                for k in (listed[0], 5, 4):
                    ev = E.make(k, 1, E.T0 + 10 + k, [], "from %d via worker %d" % (k, w))
                    fr = [json.loads(x) for x in await c.send(["EVENT", ev])]
                    oks = [f for f in fr if f[0] == "OK"]
                    ok = bool(oks and oks[0][2] is True)
                    should = not ((want_allow is not None and E.PKS[k] not in want_allow) or (want_deny is not None and E.PKS[k] in want_deny))
                    if ok != should:
                        viol.append(V("dynamic-list-not-enforced-in-worker:%s" % ("wrongly-accepted" if ok else "wrongly-rejected"),
                                      "every worker enforces the configured dynamic lists", worker=w, workers=n_workers, mode=mode,
                                      submitter=k, allow_size=len(allow), deny_size=len(deny)))
                        break
                await c.disconnect()
        finally:
            Periodic.cancel_running()
            dynamic_lists.ALLOWED_PUBKEYS.clear()
            dynamic_lists.DENIED_PUBKEYS.clear()
            web.is_main_process.clear()
        return Result(viol, w > 0, ["backend:" + backend, "worker:%d" % w, "mode:" + mode])



class Threads(Sub):
    """validators run on worker threads: another validation may run between any two bytecode instructions of one"""

    name = "threads"
    examples = {"quick": 60, "thorough": 480}
    shards = {"quick": 6, "thorough": 12}
    rule = ("a validator decides event A under a generated configuration with an INSTRUCTION callback on every function of "
            "nostr_relay.validators; at EVERY bytecode boundary the callback validates a second event B (as another worker "
            "thread would) and compares the decision with the reference; the list objects in the configuration are replaced "
            "between rounds (first use of a list is where caches are built); exhaustive over the boundaries of the drawn "
            "case; non-trivial = B must be rejected and A accepted, or the other way round")

    def strategy(self, tier):
        name = st.sampled_from(["is_author_whitelisted", "is_author_blacklisted", "is_certain_kind", "is_not_hellthread",
                                "is_not_too_large"])
        lists = st.lists(st.lists(st.sampled_from(E.PKS[:4]), min_size=1, max_size=3, unique=True), min_size=1, max_size=3)
        return st.tuples(name, lists, st.integers(0, 3), st.integers(0, 3)).map(list)

    def run_case(self, case):
        import types

        from aionostr.event import Event
        from nostr_relay import validators
        from nostr_relay.errors import StorageError

        name, lists, ka, kb = case
        viol = []
        boundaries = [0]
        nt = False
        func = getattr(validators, name)
        codes = [f.__code__ for f in vars(validators).values() if isinstance(f, types.FunctionType)
                 and f.__module__ == validators.__name__]
        mon = sys.monitoring
        tool = 3

        def mk(k):
            return {"id": "ff" * 32, "pubkey": E.PKS[k], "created_at": NOW, "kind": 1 if k % 2 else 7,
                    "tags": [["p", E.PKS[0]]] * (k + 1), "content": "x" * (k * 3), "sig": "00" * 64}

        def decide(ev, cfg):
            try:
                func(Event(**ev), cfg)
                return False
            except StorageError:
                return True

        def run_a(pubs, rnd, switch_at):
            """A is validated under fresh list objects; at boundary number switch_at (None: never) the other thread validates B"""
            cfg = Cfg(pubkey_whitelist=list(pubs), pubkey_blacklist=list(pubs), valid_kinds=[1] if rnd % 2 else [1, 7],
                      hellthread_limit=2, max_event_size=5, service_pubkey=E.PKS[5])
            a, b = mk(ka), mk(kb)
            want_a, want_b = ref_reject(name, a, cfg, NOW), ref_reject(name, b, cfg, NOW)
            inside = [False]
            wrong = []
            count = [0]

            def on_instr(codeobj, offset):
                if inside[0]:
                    return
                count[0] += 1
                if switch_at is None or count[0] - 1 != switch_at:
                    return
                inside[0] = True
                try:
                    boundaries[0] += 1
                    if decide(b, cfg) != want_b:
                        wrong.append((codeobj.co_name, offset))
                finally:
                    inside[0] = False

            try:
                mon.use_tool_id(tool, "verif-c16t")
            except ValueError:
                mon.free_tool_id(tool)
                mon.use_tool_id(tool, "verif-c16t")
            mon.register_callback(tool, mon.events.INSTRUCTION, on_instr)
            for code in codes:
                mon.set_local_events(tool, code, mon.events.INSTRUCTION)
            try:
                got_a = decide(a, cfg)
            finally:
                for code in codes:
                    mon.set_local_events(tool, code, 0)
                mon.register_callback(tool, mon.events.INSTRUCTION, None)
                mon.free_tool_id(tool)
            if got_a != want_a:
                viol.append(V("validator-decision-differs:%s" % name, "each validator decides exactly according to its documented bound",
                              round=rnd, rejected=got_a, expected=want_a))
            if wrong:
                viol.append(V("validator-decision-under-interleaving:%s" % name,
                              "a validation running on another worker thread decides correctly at every point",
                              round=rnd, list=pubs, other_event_pubkey=b["pubkey"][:8], expected_rejected=want_b,
                              wrong_at=wrong[:4], switch_at=switch_at))
            return count[0], want_a != want_b

        # one thread switch per run, at every boundary in turn; the configured lists alternate between the drawn ones (fresh
        # objects every time, as after a configuration reload) so that whatever is remembered from the run before is stale
        n0, _ = run_a(lists[0], 0, None)
        rnd = 0
        for i in range(n0 + 1):
            rnd += 1
            _, differ = run_a(lists[rnd % len(lists)], rnd, i)
            nt = nt or differ
            if viol:
                break
        if boundaries[0] < 5:
            raise H.HarnessError("instruction monitoring saw only %d boundaries" % boundaries[0])
        return Result(viol, nt, ["validator:" + name], evals=max(boundaries[0], 1), sample={"case": case, "boundaries": boundaries[0]})


SUBCHECKS = [Bounds(), Pipelines(), Lists(), Refresh(), Workers(), Threads(), RefreshLoop()]
