"""
C12 - a limit returns the newest matching events, never more than allowed.

max_limit is 7 in this check (set before the relay modules are imported).  Stores hold
fewer, exactly as many, and more matching events than the limits; limits range over
0, 1, 2, 6, 7, 8, 10**6, absent and null; one to three filters per REQ with different limits.
Oracle, per filter i with effective limit L_i = min(n_i, max_limit):
  * events attributable ONLY to filter i (they may-match no other filter) : count <= L_i
  * total events <= sum L_i
  * if at most L_i stored events may-match filter i, every MUST event of i is sent
  * recency: no omitted MUST event of i is strictly newer than a sent event attributable only to i
Order of frames is not constrained.
"""
from hypothesis import strategies as st

from vlib import bootstrap
from vlib import events as E
from vlib import harness as H
from vlib import qgen
from vlib import refmodel as R
from vlib.core import Result, Sub, V

LEVEL = "exploration"
MAX_LIMIT = bootstrap.MAX_LIMITS["C12"]
RULE = ("stores of up to 24 events with many events per kind/author/tag so that limits bite; "
        "non-trivial = some filter has strictly more may-matching stored events than its effective limit; "
        "distinct by hash of the case")
ASSUMPTIONS = ["max_limit configured to 7", "SQLite only; LMDB engine modelled",
               "ties in created_at at the cut may be resolved either way"]

LIMITS = [0, 1, 2, MAX_LIMIT - 1, MAX_LIMIT, MAX_LIMIT + 1, 10**6, None, "absent"]


@st.composite
def st_case(draw):
    backend = draw(st.sampled_from(["kv", "sql"]))
    n = draw(st.integers(3, 24))
    ids = draw(E.st_id_pool(n))
    store = []
    for i in ids:
        store.append(E.free(i, draw(st.sampled_from(qgen.PUBS[:2])), draw(st.sampled_from([1, 1, 2, 7])),
                            draw(E.weighted((6, st.integers(E.T0 - 5, E.T0 + 5)), (1, st.just(E.T0)))),
                            draw(st.lists(st.sampled_from([["t", "a"], ["t", "ab"], ["p", qgen.PUBS[0]]]), max_size=2))))
    nf = draw(E.weighted((5, st.just(1)), (3, st.just(2)), (1, st.just(3))))
    filters = []
    for _ in range(nf):
        shape = draw(st.integers(0, 9))
        if shape == 0:
            # conditions on two tag names: the index scan is a union over (name, value) pairs, the AND comes later
            f = {"#t": [draw(st.sampled_from(["a", "ab"]))], "#p": [qgen.PUBS[0]]}
        elif shape == 1 and filters:
            f = {k: v for k, v in filters[-1].items() if k != "limit"}  # same conditions again, another limit
        else:
            f = draw(qgen.st_filter(store, allow_absent=False, max_conds=2))
        lim = draw(st.sampled_from(LIMITS))
        if lim != "absent":
            f["limit"] = lim
        filters.append(f)
    if draw(st.integers(0, 3)) == 0:
        # a filter the relay drops without running it (an empty value list matches nothing) somewhere in the REQ, possibly
        # with a limit of its own: the filters around it keep their own limits
        comp = {draw(st.sampled_from(["kinds", "ids", "authors", "#t"])): []}
        if draw(st.booleans()):
            comp["limit"] = draw(st.sampled_from([0, 1, 2, MAX_LIMIT]))
        filters.insert(draw(st.integers(0, len(filters))), comp)
    return {"backend": backend, "store": store, "filters": filters}


def is_companion(f):
    return any(isinstance(v, list) and not v for v in f.values())


def eff(f):
    if is_companion(f):
        return 0
    lim = f.get("limit", "absent")
    if type(lim) is int:
        return min(lim, MAX_LIMIT)
    return MAX_LIMIT


def judge(backend, stored, filters, got, viol, labels):
    """the C12 oracle for one answered REQ; returns non-trivial?"""
    sent = [g["id"] for g in got]
    for i in sent:
        if i not in stored:
            viol.append(V("%s-ghost" % backend, "sent event is stored", id=i))
            return False
    may = [[e for e in stored.values() if R.may_match(e, f)] for f in filters]
    must = [[e for e in stored.values() if R.must_match(e, f)] for f in filters]
    effs = [eff(f) for f in filters]
    total_allowed = sum(effs)
    nt = any(len(may[i]) > effs[i] for i in range(len(filters)))
    if len(sent) > total_allowed:
        viol.append(V("%s-over-limit-total" % backend, "at most sum of effective limits events are sent",
                      backend=backend, filters=filters, sent=len(sent), allowed=total_allowed))
    for i, f in enumerate(filters):
        others = [g for j, g in enumerate(filters) if j != i]
        only = [s for s in sent if R.may_match(stored[s], f) and not any(R.may_match(stored[s], g) for g in others)]
        lim_label = "limit:%s" % (f.get("limit", "absent"),)
        labels.append(lim_label)
        if len(only) > effs[i]:
            viol.append(V("%s-over-limit:%s" % (backend, limit_class(f)),
                          "at most min(n, max_limit) events are sent for a filter",
                          backend=backend, filter=f, filters=filters, sent_for_filter=len(only), allowed=effs[i]))
        omitted = [e for e in must[i] if e["id"] not in sent]
        if omitted and len(may[i]) <= effs[i]:
            viol.append(V("%s-truncated-under-limit:%s" % (backend, "multi" if len(filters) > 1 else "single"),
                          "a limit not smaller than the number of matches truncates nothing",
                          backend=backend, filter=f, filters=filters, omitted=[e["id"] for e in omitted]))
        if omitted and only:
            oldest_sent = min(stored[s]["created_at"] for s in only)
            newer = [e for e in omitted if e["created_at"] > oldest_sent]
            if newer:
                viol.append(V("%s-not-newest:%s" % (backend, shape(f)),
                              "no omitted matching event is newer than a sent one",
                              backend=backend, filter=f, filters=filters, omitted_newer=[(e["id"], e["created_at"]) for e in newer],
                              oldest_sent=oldest_sent))
    return nt


class Limits(Sub):
    name = "limits"
    examples = {"quick": 2400, "thorough": 19200}
    shards = {"quick": 12, "thorough": 16}
    rule = RULE

    def strategy(self, tier):
        return st_case()

    def run_case(self, case):
        return H.run(self._run, case)

    async def _run(self, case):
        backend, filters = case["backend"], case["filters"]
        viol = []
        labels = ["backend:" + backend, "nfilters:%d" % len(filters)]
        for f in filters:
            g = {k: v for k, v in f.items() if k != "limit"}
            if is_companion(f):
                labels.append("dropped-companion-filter")
            elif not (R.wellformed_filter(g) and R.has_condition(g)):
                return Result([], False, ["out-of-domain"])
        from nostr_relay.config import Config
        if Config.max_limit != MAX_LIMIT:
            raise H.HarnessError("max_limit is %r, expected %d" % (Config.max_limit, MAX_LIMIT))
        async with H.Rig(backend, validators=[]) as rig:
            for ev in case["store"]:
                await rig.add(ev)
            stored = await rig.dump()
            got, eose, err = await rig.req(filters)
            if err or eose != 1:
                viol.append(V("%s-req-not-served" % backend, "a well-formed REQ is served with one EOSE", err=err, eose=eose))
                return Result(viol, False, labels)
            nt = judge(backend, stored, filters, got, viol, labels)
        return Result(viol, nt, labels)


class WsReuse(Sub):
    """several REQs on one websocket connection, re-using subscription ids with and without CLOSE in between"""

    name = "ws-reuse"
    examples = {"quick": 400, "thorough": 3200}
    shards = {"quick": 8, "thorough": 16}
    rule = ("one connection, 2..5 REQs over a store of 4..20 events with subscription ids drawn from {x, y}, limits from the "
            "usual set, optionally a CLOSE or a freshly accepted event in between; EVERY answer (the frames up to its EOSE) is "
            "judged by the limit oracle on its own; non-trivial = a later REQ re-uses an id without CLOSE and its answer "
            "overlaps an earlier one")

    def strategy(self, tier):
        req = st.tuples(st.sampled_from(["x", "x", "y"]), st.sampled_from([{"kinds": [1]}, {"kinds": [1, 2]}, {"#t": ["a"]},
                                                                            {"authors": [qgen.PUBS[0]]}]),
                        st.sampled_from(LIMITS), st.sampled_from(["", "", "close", "event"])).map(list)
        return st.tuples(st.sampled_from(["kv", "sql"]), st.integers(4, 20), st.lists(req, min_size=2, max_size=5)).map(list)

    def run_case(self, case):
        return H.run(self._run, case)

    async def _run(self, case):
        import json

        backend, n, reqs = case
        viol = []
        labels = ["backend:" + backend]
        nt = False
        async with H.Rig(backend, validators=[]) as rig:
            for i in range(n):
                await rig.add(E.free("%064x" % (i + 1), qgen.PUBS[i % 2], 1 if i % 3 else 2, E.T0 + i, [["t", "a" if i % 2 else "b"]]))
            c = rig.conn("10.0.0.1")
            seen = {}
            extra = 0
            for sub, f, lim, between in reqs:
                if between == "close":
                    await c.send(["CLOSE", sub])
                    seen.pop(sub, None)
                elif between == "event":
                    extra += 1
                    await rig.add(E.free("%064x" % (0xee00 + extra), qgen.PUBS[0], 1, E.T0 + 100 + extra, [["t", "a"]]))
                f = dict(f)
                if lim != "absent":
                    f["limit"] = lim
                n0 = len(c.out)
                await c.send(["REQ", sub, f])
                frames = c.frames(n0)
                got = []
                for fr in frames:
                    if fr[0] == "EOSE" and fr[1] == sub:
                        break
                    if fr[0] == "EVENT" and fr[1] == sub:
                        got.append(fr[2])
                else:
                    viol.append(V("%s-req-not-served" % backend, "a well-formed REQ is served with one EOSE", frames=frames[:3]))
                    break
                stored = await rig.dump()
                j = judge(backend, stored, [f], got, viol, labels)
                ids = {g["id"] for g in got}
                if sub in seen and (seen[sub] & {e["id"] for e in stored.values() if R.must_match(e, f)}):
                    nt = True
                    labels.append("id-reused-without-close")
                seen[sub] = seen.get(sub, set()) | ids
                if viol:
                    viol[0]["detail"]["reqs"] = reqs
                    break
        return Result(viol, nt, labels)


class SqlFetchFault(Sub):
    """SQL: the database fails while the rows of a stored query are being fetched - still never more than the limit"""

    name = "sql-fetch-fault"
    examples = {"quick": 160, "thorough": 1280}
    shards = {"quick": 8, "thorough": 16}
    rule = ("SQLite: 8..30 matching events, one or two filters with limits 1..8 / absent, and a sqlite3.OperationalError "
            "('database is locked') raised once at the j-th row fetch (j = 0..3) of the REQ's statement; oracle: upper bounds "
            "only (at most min(limit, max_limit) events per filter, no event more often than it has matching filters, at most "
            "one EOSE); non-trivial = the fault fired after at least one row had been delivered")

    def strategy(self, tier):
        return st.tuples(st.integers(8, 30), st.lists(st.sampled_from([1, 2, MAX_LIMIT - 1, MAX_LIMIT, MAX_LIMIT + 1, "absent"]),
                                                      min_size=1, max_size=2), st.integers(0, 3)).map(list)

    def run_case(self, case):
        return H.run(self._run, case)

    async def _run(self, case):
        import sqlite3

        import aiosqlite

        n, limits, j = case
        viol = []
        labels = []
        store = [E.free("%064x" % (i + 1), qgen.PUBS[i % 2], 1, E.T0 + i, [["t", "a"]]) for i in range(n)]
        filters = []
        for i, lim in enumerate(limits):
            f = {"kinds": [1]} if i == 0 else {"#t": ["a"]}
            if lim != "absent":
                f["limit"] = lim
            filters.append(f)
        calls = {"n": -10**9, "fired": False}
        orig = {}

        def wrap(name):
            real = getattr(aiosqlite.Cursor, name)
            orig[name] = real

            async def fetch(self, *a, **kw):
                calls["n"] += 1
                if calls["n"] - 1 == j and not calls["fired"]:
                    calls["fired"] = True
                    raise sqlite3.OperationalError("database is locked")
                return await real(self, *a, **kw)
            setattr(aiosqlite.Cursor, name, fetch)

        async with H.Rig("sql", validators=[], file_db=True) as rig:
            for ev in store:
                await rig.add(ev)
            for name in ("fetchone", "fetchmany", "fetchall"):
                wrap(name)
            try:
                calls["n"] = 0
                got, eose, err = await rig.req(filters)
            finally:
                calls["n"] = -10**9
                for name, real in orig.items():
                    setattr(aiosqlite.Cursor, name, real)
            labels.append("fault-fired" if calls["fired"] else "fault-not-reached")
            sent = [g["id"] for g in got]
            allowed = sum(eff(f) for f in filters)
            if len(sent) > allowed:
                viol.append(V("sql-over-limit-after-fetch-error", "at most min(n, max_limit) events are sent for a filter",
                              filters=filters, sent=len(sent), allowed=allowed, fault_at_fetch=j))
            for i in set(sent):
                if sent.count(i) > len(filters):
                    viol.append(V("sql-duplicate-after-fetch-error", "an event is sent at most once per matching filter",
                                  id=i, copies=sent.count(i), filters=len(filters)))
                    break
            if eose > 1:
                viol.append(V("sql-eose-count-after-fetch-error", "at most one EOSE", eose=eose))
        return Result(viol, calls["fired"] and bool(sent), labels)


def limit_class(f):
    lim = f.get("limit", "absent")
    if lim == 0:
        return "zero"
    if lim is None or lim == "absent":
        return "default"
    return "above-max" if lim > MAX_LIMIT else "explicit"


def shape(f):
    multi = any(isinstance(v, list) and len(v) > 1 for v in f.values())
    return "multi-value" if multi else "single-value"


class KvReadFault(Sub):
    """LMDB: reading one record fails while a limited REQ is answered - whatever is sent is still the newest matching events"""

    name = "kv-read-fault"
    examples = {"quick": 240, "thorough": 1920}
    shards = {"quick": 8, "thorough": 16}
    rule = ("LMDB: 6..20 matching events with distinct timestamps, one filter (single value / two values / two conditions) "
            "with limit 1..8 or absent, lmdb.Error raised once at the j-th record read (get_event_data) of the stored query; "
            "oracle: at most min(limit, max_limit) events, none twice, at most one EOSE, and the events sent are exactly the "
            "len(sent) newest matching ones (a failed read may cut the answer short, never leave a newer match out); "
            "non-trivial = the fault fired and at least one event was sent")

    def strategy(self, tier):
        return st.tuples(st.integers(6, 20), st.sampled_from([1, 2, 3, MAX_LIMIT - 1, MAX_LIMIT, MAX_LIMIT + 1, "absent"]),
                         st.integers(0, 8), st.sampled_from(["kind", "kinds2", "tag", "tag2", "tag+kind", "author"])).map(list)

    def run_case(self, case):
        return H.run(self._run, case)

    async def _run(self, case):
        import lmdb

        from nostr_relay.storage import kv

        n, lim, j, shp = case
        viol = []
        store = [E.free("%064x" % (i + 1), qgen.PUBS[2], 1 + (i % 2 if shp == "kinds2" else 0), E.T0 + i,
                        [["t", "a" if (shp != "tag2" or i % 2) else "b"]]) for i in range(n)]
        # events that do not match but are scanned (rejected by the residual matcher)
        noise = [E.free("%064x" % (0x100 + i), qgen.PUBS[2], 2, E.T0 + i, [["t", "a"]]) for i in range(0, n, 3)] if shp == "tag+kind" else []
        f = {"kind": {"kinds": [1]}, "kinds2": {"kinds": [1, 2]}, "tag": {"#t": ["a"]}, "tag2": {"#t": ["a", "b"]},
             "tag+kind": {"#t": ["a"], "kinds": [1]}, "author": {"authors": [qgen.PUBS[2]]}}[shp]
        if lim != "absent":
            f["limit"] = lim
        calls = {"n": -10**9, "fired": False}
        real = kv.get_event_data

        def faulty(txn, event_id):
            calls["n"] += 1
            if calls["n"] - 1 == j and not calls["fired"]:
                calls["fired"] = True
                raise lmdb.Error("mdb_get: MDB_PAGE_NOTFOUND: Requested page not found")
            return real(txn, event_id)

        async with H.Rig("kv", validators=[]) as rig:
            for ev in store + noise:
                await rig.add(ev)
            kv.get_event_data = faulty
            try:
                calls["n"] = 0
                got, eose, err = await rig.req([f])
            finally:
                calls["n"] = -10**9
                kv.get_event_data = real
            sent = [g["id"] for g in got]
            newest = [e["id"] for e in sorted(store, key=lambda e: -e["created_at"])]
            if len(sent) > eff(f):
                viol.append(V("kv-over-limit-after-read-error", "at most min(n, max_limit) events are sent for a filter",
                              filter=f, sent=len(sent), allowed=eff(f), fault_at_read=j))
            elif len(set(sent)) != len(sent):
                viol.append(V("kv-duplicate-after-read-error", "an event is sent at most once per matching filter", sent=sent))
            elif set(sent) != set(newest[:len(sent)]):
                viol.append(V("kv-newer-match-left-out-after-read-error",
                              "the events sent for a limited filter are the newest matching ones",
                              filter=f, fault_at_read=j, sent=[i[-4:] for i in sent],
                              newest=[i[-4:] for i in newest[:len(sent) + 2]]))
            if eose > 1:
                viol.append(V("kv-eose-count-after-read-error", "at most one EOSE", eose=eose))
            # the relay is still usable afterwards and the full answer is back
            got2, eose2, err2 = await rig.req([f])
            if [g["id"] for g in got2] != newest[:eff(f)] and not viol:
                viol.append(V("kv-answer-wrong-after-read-error", "a later REQ is answered in full", filter=f,
                              got=len(got2), expected=min(len(newest), eff(f))))
        return Result(viol, calls["fired"] and bool(sent), ["fault-fired" if calls["fired"] else "fault-not-reached", "shape:" + shp])


SUBCHECKS = [Limits(), SqlFetchFault(), WsReuse(), KvReadFault()]
