from pip._vendor.msgpack import *  # noqa
from pip._vendor.msgpack import packb, unpackb, version  # noqa
