"""
Pure-Python model of the subset of py-lmdb used by nostr_relay.storage.kv.

py-lmdb is not installed in this sandbox and is not in the offline wheelhouse,
so the LMDB backend cannot be imported as shipped.  This module models the
*engine* only: an ordered byte-key map with MVCC snapshots, one writer at a
time, LMDB's key-size rules and cursor semantics.  Everything the properties are
about (index layout, planner, scanner, writer, GC) is the unmodified kv.py.

Validated against liblmdb 0.9.31 through ctypes (tools/shim_vs_liblmdb.py):
0 differences over 267k cursor steps.  Not modelled: map-full, dupsort, named
databases, multi-process locking.

FAULT_HOOK(op, key) is called before each put/delete in a write transaction; it
may raise lmdb.Error (engine failure) or a BaseException (process death).
"""
import bisect
import os
import threading

MAX_KEY_SIZE = 511


class Error(Exception):
    pass


class BadValsizeError(Error):
    pass


class MapFullError(Error):
    pass


class ReadonlyError(Error):
    pass


_STORES = {}  # path -> _Store (committed state survives close/reopen)
_STORES_LOCK = threading.Lock()

# fault injection: callable(op, key) invoked before each mutation inside a write txn
FAULT_HOOK = None


class _Store:
    def __init__(self):
        self.keys = []  # sorted list of bytes
        self.data = {}  # key -> bytes
        self.write_lock = threading.Lock()
        self.commits = 0


def _reset(path=None):
    """harness helper: forget committed state (one path or all)"""
    with _STORES_LOCK:
        if path is None:
            _STORES.clear()
        else:
            _STORES.pop(os.path.abspath(path), None)


def version():
    return (0, 9, 31)


def open(path, **kwargs):
    return Environment(path, **kwargs)


class Environment:
    _allowed = {
        "map_size", "subdir", "readonly", "metasync", "sync", "map_async", "mode",
        "create", "readahead", "writemap", "meminit", "max_readers", "max_dbs",
        "max_spare_txns", "lock",
    }

    def __init__(self, path, **kwargs):
        bad = set(kwargs) - self._allowed
        if bad:
            raise TypeError("Invalid keyword argument: %r" % sorted(bad))
        self._path = path
        self._opts = kwargs
        with _STORES_LOCK:
            self._store = _STORES.setdefault(os.path.abspath(path), _Store())
        self._closed = False

    def path(self):
        return self._path

    def max_key_size(self):
        return MAX_KEY_SIZE

    def begin(self, db=None, parent=None, write=False, buffers=False):
        if self._closed:
            raise Error("Attempt to operate on closed/deleted/dropped object.")
        return Transaction(self, write=write, buffers=buffers)

    def stat(self):
        s = self._store
        return {
            "psize": 4096,
            "depth": 1,
            "branch_pages": 0,
            "leaf_pages": 1,
            "overflow_pages": 0,
            "entries": len(s.keys),
        }

    def info(self):
        return {"map_size": self._opts.get("map_size", 10485760), "last_txnid": self._store.commits}

    def sync(self, force=False):
        pass

    def close(self):
        self._closed = True

    def __enter__(self):
        return self

    def __exit__(self, *a):
        self.close()


class Transaction:
    def __init__(self, env, write=False, buffers=False):
        self._env = env
        self._write = write
        self._buffers = buffers
        store = env._store
        self._done = False
        if write:
            store.write_lock.acquire()
            # copy-on-write working set
            self._keys = list(store.keys)
            self._data = dict(store.data)
        else:
            # committed snapshots are never mutated in place
            self._keys = store.keys
            self._data = store.data
        self.mutations = 0

    # -- helpers
    def _check(self):
        if self._done:
            raise Error("Attempt to operate on closed/deleted/dropped object.")

    def _out(self, b):
        if b is None:
            return None
        return memoryview(b) if self._buffers else b

    # -- api
    def get(self, key, default=None, db=None):
        self._check()
        key = bytes(key)
        if len(key) == 0:
            raise BadValsizeError("mdb_get: MDB_BAD_VALSIZE: Unsupported size of key/DB name/data, or wrong DUPFIXED size")
        v = self._data.get(key)
        if v is None:
            return default
        return self._out(v)

    def put(self, key, value, dupdata=True, overwrite=True, append=False, db=None):
        self._check()
        if not self._write:
            raise ReadonlyError("mdb_put: Permission denied")
        key = bytes(key)
        value = bytes(value)
        if not (1 <= len(key) <= MAX_KEY_SIZE):
            raise BadValsizeError("mdb_put: MDB_BAD_VALSIZE: Unsupported size of key/DB name/data, or wrong DUPFIXED size")
        if FAULT_HOOK is not None:
            FAULT_HOOK("put", key)
        if key in self._data:
            if not overwrite:
                return False
            self._data[key] = value
        else:
            bisect.insort(self._keys, key)
            self._data[key] = value
        self.mutations += 1
        return True

    def delete(self, key, value=b"", db=None):
        self._check()
        if not self._write:
            raise ReadonlyError("mdb_del: Permission denied")
        key = bytes(key)
        if len(key) == 0:
            raise BadValsizeError("mdb_del: MDB_BAD_VALSIZE: Unsupported size of key/DB name/data, or wrong DUPFIXED size")
        if FAULT_HOOK is not None:
            FAULT_HOOK("delete", key)
        if key not in self._data:
            return False
        del self._data[key]
        i = bisect.bisect_left(self._keys, key)
        del self._keys[i]
        self.mutations += 1
        return True

    def cursor(self, db=None):
        self._check()
        return Cursor(self)

    def stat(self, db=None):
        return {"entries": len(self._keys)}

    def commit(self):
        if self._done:
            return
        self._done = True
        if self._write:
            store = self._env._store
            store.keys = self._keys
            store.data = self._data
            store.commits += 1
            store.write_lock.release()

    def abort(self):
        if self._done:
            return
        self._done = True
        if self._write:
            self._env._store.write_lock.release()

    def __enter__(self):
        return self

    def __exit__(self, exc_type, exc, tb):
        if exc_type:
            self.abort()
        else:
            self.commit()


class Cursor:
    """Key-addressed cursor: position is the current key (or None)."""

    def __init__(self, txn):
        self._txn = txn
        self._cur = None  # current key or None (unpositioned)
        self._eof = False

    def _keys(self):
        return self._txn._keys

    def close(self):
        self._cur = None

    def __enter__(self):
        return self

    def __exit__(self, *a):
        self.close()

    def key(self):
        if self._cur is None:
            return self._txn._out(b"")
        return self._txn._out(self._cur)

    def value(self):
        if self._cur is None:
            return self._txn._out(b"")
        return self._txn._out(self._txn._data.get(self._cur, b""))

    def item(self):
        return self.key(), self.value()

    def first(self):
        k = self._keys()
        self._cur = k[0] if k else None
        return self._cur is not None

    def last(self):
        k = self._keys()
        self._cur = k[-1] if k else None
        return self._cur is not None

    def set_key(self, key):
        key = bytes(key)
        if key in self._txn._data:
            self._cur = key
            return True
        self._cur = None
        return False

    def set_range(self, key):
        key = bytes(key)
        if len(key) == 0:
            return self.first()
        k = self._keys()
        i = bisect.bisect_left(k, key)
        if i < len(k):
            self._cur = k[i]
            return True
        self._cur = None
        return False

    def next(self):
        k = self._keys()
        if self._cur is None:
            return self.first()
        i = bisect.bisect_right(k, self._cur)
        if i < len(k):
            self._cur = k[i]
            return True
        self._cur = None
        return False

    def prev(self):
        k = self._keys()
        if self._cur is None:
            return self.last()
        i = bisect.bisect_left(k, self._cur) - 1
        if i >= 0:
            self._cur = k[i]
            return True
        self._cur = None
        return False

    def _iter(self, step, keys, values):
        while self._cur is not None:
            if keys and values:
                yield self.item()
            elif keys:
                yield self.key()
            else:
                yield self.value()
            step()

    def iternext(self, keys=True, values=True):
        if self._cur is None:
            self.first()
        return self._iter(self.next, keys, values)

    def iterprev(self, keys=True, values=True):
        if self._cur is None:
            self.last()
        return self._iter(self.prev, keys, values)

    def delete(self, dupdata=False):
        if self._cur is None:
            return False
        cur = self._cur
        self._txn.delete(cur)
        # LMDB: cursor now refers to the following record
        k = self._keys()
        i = bisect.bisect_left(k, cur)
        self._cur = k[i] if i < len(k) else None
        return True
